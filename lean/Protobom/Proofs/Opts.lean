/- Refinement of the options heap to configuration values: instances never share cells. -/
import Protobom.Model.Opts

namespace Protobom.Opts

theorem upd_ne (s : Nat → Cell) (p q : Nat) (c : Cell) (h : q ≠ p) : upd s p c q = s q := by
  simp [upd, h]

theorem upd_eq (s : Nat → Cell) (p : Nat) (c : Cell) : upd s p c p = c := by simp [upd]

theorem map_upd_of_not_mem (s : Nat → Cell) (p : Nat) (c : Cell) (l : List Nat) (h : p ∉ l) :
    l.map (upd s p c) = l.map s := by
  apply List.map_congr_left
  intro q hq
  exact upd_ne s p q c (fun e => h (e ▸ hq))

theorem map_upd_nodup (s : Nat → Cell) (c : Cell) : ∀ (l : List Nat) (k p : Nat), l.Nodup → l[k]? = some p →
    l.map (upd s p c) = (l.map s).set k c
  | [], k, p, _, h => by simp at h
  | x :: xs, 0, p, hnd, h => by
    simp only [List.getElem?_cons_zero, Option.some.injEq] at h
    subst h
    have hx : x ∉ xs := (List.nodup_cons.mp hnd).1
    simp [upd_eq, map_upd_of_not_mem s x c xs hx]
  | x :: xs, k + 1, p, hnd, h => by
    simp only [List.getElem?_cons_succ] at h
    have hnd' := List.nodup_cons.mp hnd
    have hp : p ∈ xs := List.mem_of_getElem? h
    have hxp : x ≠ p := fun e => hnd'.1 (e ▸ hp)
    simp [upd_ne s p x c hxp, map_upd_nodup s c xs k p hnd'.2 h]

/-! ### clone -/

theorem clonePtrs_spec : ∀ (ps : List Nat) (s : Nat → Cell) (next : Nat), (∀ p ∈ ps, p < next) →
    (clonePtrs s next ps).2.1 = next + ps.length ∧
    (clonePtrs s next ps).2.2 = List.range' next ps.length ∧
    (∀ q, q < next → (clonePtrs s next ps).1 q = s q) ∧
    (clonePtrs s next ps).2.2.map (clonePtrs s next ps).1 = ps.map s
  | [], s, next, _ => by simp [clonePtrs]
  | p :: ps, s, next, h => by
    have hp : p < next := h p List.mem_cons_self
    have hps : ∀ q ∈ ps, q < next + 1 := fun q hq => Nat.lt_succ_of_lt (h q (List.mem_cons_of_mem _ hq))
    obtain ⟨i1, i2, i3, i4⟩ := clonePtrs_spec ps (upd s next (s p)) (next + 1) hps
    simp only [clonePtrs]
    refine ⟨by rw [i1]; simp; omega, by rw [i2]; simp [List.range'], ?_, ?_⟩
    · intro q hq
      rw [i3 q (by omega)]
      exact upd_ne s next q _ (by omega)
    · simp only [List.map_cons]
      rw [i4, i3 next (by omega), upd_eq]
      congr 1
      apply List.map_congr_left
      intro q hq
      exact upd_ne s next q _ (by have := h q (List.mem_cons_of_mem _ hq); omega)

/-! ### settings -/

/-- what an options object under construction owns: pointers below `next`, without repetition,
    none of them in the foreign set `F` -/
structure Owns (F : List Nat) (next : Nat) (o : Opt) : Prop where
  bound : ∀ p ∈ o.ptrs, p < next
  nodup : o.ptrs.Nodup
  disj : ∀ p ∈ o.ptrs, p ∉ F

theorem mem_set_cases (l : List Nat) (k v x : Nat) (h : x ∈ l.set k v) : x = v ∨ x ∈ l := by
  rcases List.mem_or_eq_of_mem_set h with h | h
  · exact Or.inr h
  · exact Or.inl h

theorem nodup_set_fresh (l : List Nat) (k v : Nat) (h : l.Nodup) (hv : v ∉ l) : (l.set k v).Nodup := by
  induction l generalizing k with
  | nil => simp
  | cons x xs ih =>
    have hx := List.nodup_cons.mp h
    cases k with
    | zero =>
      simp only [List.set_cons_zero]
      exact List.nodup_cons.mpr ⟨fun hm => hv (List.mem_cons_of_mem _ hm), hx.2⟩
    | succ k =>
      simp only [List.set_cons_succ]
      refine List.nodup_cons.mpr ⟨?_, ih k hx.2 (fun hm => hv (List.mem_cons_of_mem _ hm))⟩
      intro hm
      rcases mem_set_cases xs k v x hm with e | e
      · exact hv (e ▸ List.mem_cons_self)
      · exact hx.1 e

theorem applySetting_spec (F : List Nat) (s : Nat → Cell) (next : Nat) (o : Opt) (x : Setting)
    (hF : ∀ p ∈ F, p < next) (ho : Owns F next o) :
    let r := applySetting s next o x
    next ≤ r.2.1 ∧ Owns F r.2.1 r.2.2 ∧ (∀ q ∈ F, r.1 q = s q) ∧
    deref r.1 r.2.2 = specSetting (deref s o) x := by
  cases x with
  | format f =>
    exact ⟨Nat.le_refl _, ⟨ho.bound, ho.nodup, ho.disj⟩, fun _ _ => rfl, rfl⟩
  | replace k c =>
    simp only [applySetting, specSetting, deref, List.length_map]
    by_cases hk : k < o.ptrs.length
    · simp only [hk, if_true]
      have hfresh : next ∉ o.ptrs := fun hm => Nat.lt_irrefl _ (ho.bound next hm)
      refine ⟨by omega, ⟨?_, nodup_set_fresh _ _ _ ho.nodup hfresh, ?_⟩, ?_, ?_⟩
      · intro p hp
        rcases mem_set_cases _ _ _ _ hp with e | e
        · omega
        · have := ho.bound p e; omega
      · intro p hp
        rcases mem_set_cases _ _ _ _ hp with e | e
        · intro hpf; have := hF p hpf; omega
        · exact ho.disj p e
      · intro q hq
        exact upd_ne s next q c (by have := hF q hq; omega)
      · simp only [setNth, List.map_set, upd_eq, Prod.mk.injEq, true_and]
        congr 1
        exact map_upd_of_not_mem s next c o.ptrs hfresh
    · simp only [hk, if_false]
      refine ⟨Nat.le_refl _, ho, ?_, ?_⟩ <;> first | trivial | rfl | (intros; trivial)
  | setKey k key val =>
    simp only [applySetting, specSetting, deref, List.getElem?_map]
    cases hp : o.ptrs[k]? with
    | none =>
      simp only [Option.map_none]
      refine ⟨Nat.le_refl _, ho, ?_, ?_⟩ <;> first | trivial | rfl | (intros; trivial)
    | some p =>
      simp only [Option.map_some]
      have hpm : p ∈ o.ptrs := List.mem_of_getElem? hp
      refine ⟨Nat.le_refl _, ho, ?_, ?_⟩
      · intro q hq
        exact upd_ne s p q _ (fun e => ho.disj p hpm (e ▸ hq))
      · simp only [Prod.mk.injEq, true_and]
        exact map_upd_nodup s _ o.ptrs k p ho.nodup hp

theorem applySettings_spec (F : List Nat) : ∀ (xs : List Setting) (s : Nat → Cell) (next : Nat) (o : Opt),
    (∀ p ∈ F, p < next) → Owns F next o →
    next ≤ (applySettings s next o xs).2.1 ∧ Owns F (applySettings s next o xs).2.1 (applySettings s next o xs).2.2 ∧
    (∀ q ∈ F, (applySettings s next o xs).1 q = s q) ∧
    deref (applySettings s next o xs).1 (applySettings s next o xs).2.2 = xs.foldl specSetting (deref s o)
  | [], s, next, o, _, ho => ⟨Nat.le_refl _, ho, fun _ _ => rfl, rfl⟩
  | x :: xs, s, next, o, hF, ho => by
    obtain ⟨a1, a2, a3, a4⟩ := applySetting_spec F s next o x hF ho
    obtain ⟨b1, b2, b3, b4⟩ := applySettings_spec F xs _ _ _ (fun p hp => Nat.lt_of_lt_of_le (hF p hp) a1) a2
    simp only [applySettings, List.foldl_cons]
    refine ⟨Nat.le_trans a1 b1, b2, fun q hq => (b3 q hq).trans (a3 q hq), ?_⟩
    rw [b4, a4]

/-! ### states -/

def objs (st : St) : List Opt := st.defaults :: st.insts

structure Inv (st : St) : Prop where
  bound : ∀ o ∈ objs st, ∀ p ∈ o.ptrs, p < st.next
  nodup : ∀ o ∈ objs st, o.ptrs.Nodup
  disj : ∀ (i j : Nat) (oi oj : Opt), (objs st)[i]? = some oi → (objs st)[j]? = some oj → i ≠ j → ∀ p ∈ oi.ptrs, p ∉ oj.ptrs

def absD (st : St) : Cfg := deref st.store st.defaults
def abs (st : St) : List Cfg := st.insts.map (deref st.store)

def allPtrs (st : St) : List Nat := (objs st).flatMap (·.ptrs)

theorem deref_congr (s s' : Nat → Cell) (o : Opt) (h : ∀ p ∈ o.ptrs, s' p = s p) : deref s' o = deref s o := by
  simp only [deref, Prod.mk.injEq, true_and]
  exact List.map_congr_left h

theorem step_new (st : St) (settings : List Setting) (h : Inv st) :
    Inv (step st (.new settings)) ∧ absD (step st (.new settings)) = absD st ∧
    abs (step st (.new settings)) = specStep (absD st) (abs st) (.new settings) := by
  -- the clone
  have hdb : ∀ p ∈ st.defaults.ptrs, p < st.next := h.bound _ List.mem_cons_self
  obtain ⟨c1, c2, c3, c4⟩ := clonePtrs_spec st.defaults.ptrs st.store st.next hdb
  let c := clonePtrs st.store st.next st.defaults.ptrs
  let o0 : Opt := { format := st.defaults.format, ptrs := c.2.2 }
  have hF : ∀ p ∈ allPtrs st, p < c.2.1 := by
    intro p hp
    simp only [allPtrs, List.mem_flatMap] at hp
    obtain ⟨o, ho, hpo⟩ := hp
    have := h.bound o ho p hpo
    show p < (clonePtrs st.store st.next st.defaults.ptrs).2.1
    rw [c1]; omega
  have hmem0 : ∀ p ∈ o0.ptrs, st.next ≤ p ∧ p < c.2.1 := by
    intro p hp
    have hp' : p ∈ List.range' st.next st.defaults.ptrs.length := c2 ▸ hp
    rw [List.mem_range'_1] at hp'
    refine ⟨hp'.1, ?_⟩
    show p < (clonePtrs st.store st.next st.defaults.ptrs).2.1
    rw [c1]; exact hp'.2
  have hown : Owns (allPtrs st) c.2.1 o0 := by
    refine ⟨fun p hp => (hmem0 p hp).2, ?_, ?_⟩
    · show (clonePtrs st.store st.next st.defaults.ptrs).2.2.Nodup
      rw [c2]; exact List.nodup_range'
    · intro p hp hpf
      simp only [allPtrs, List.mem_flatMap] at hpf
      obtain ⟨o, ho, hpo⟩ := hpf
      have := h.bound o ho p hpo
      have := (hmem0 p hp).1
      omega
  obtain ⟨a1, a2, a3, a4⟩ := applySettings_spec (allPtrs st) settings c.1 c.2.1 o0 hF hown
  -- the cells of every old object are untouched
  have hold : ∀ o ∈ objs st, ∀ p ∈ o.ptrs, (applySettings c.1 c.2.1 o0 settings).1 p = st.store p := by
    intro o ho p hp
    have hpa : p ∈ allPtrs st := by simp only [allPtrs, List.mem_flatMap]; exact ⟨o, ho, hp⟩
    rw [a3 p hpa]
    exact c3 p (h.bound o ho p hp)
  have hnext : st.next ≤ (applySettings c.1 c.2.1 o0 settings).2.1 := by
    have : st.next ≤ c.2.1 := by
      show st.next ≤ (clonePtrs st.store st.next st.defaults.ptrs).2.1
      rw [c1]; omega
    omega
  refine ⟨?_, ?_, ?_⟩
  · -- invariant
    let st' : St := { store := (applySettings c.1 c.2.1 o0 settings).1, next := (applySettings c.1 c.2.1 o0 settings).2.1,
                      defaults := st.defaults, insts := st.insts ++ [(applySettings c.1 c.2.1 o0 settings).2.2] }
    have hst' : step st (.new settings) = st' := rfl
    rw [hst']
    have hobjs' : objs st' = objs st ++ [(applySettings c.1 c.2.1 o0 settings).2.2] := by simp [objs, st']
    have hobjs : ∀ o, o ∈ objs st' ↔ o ∈ objs st ∨ o = (applySettings c.1 c.2.1 o0 settings).2.2 := by
      intro o; rw [hobjs']; simp
    refine ⟨?_, ?_, ?_⟩
    · intro o ho p hp
      rcases (hobjs o).mp ho with ho | ho
      · exact Nat.lt_of_lt_of_le (h.bound o ho p hp) hnext
      · subst ho; exact a2.bound p hp
    · intro o ho
      rcases (hobjs o).mp ho with ho | ho
      · exact h.nodup o ho
      · subst ho; exact a2.nodup
    · intro i j oi oj hi hj hij p hp
      rw [hobjs'] at hi hj
      by_cases hi' : i < (objs st).length
      · rw [List.getElem?_append_left hi'] at hi
        by_cases hj' : j < (objs st).length
        · rw [List.getElem?_append_left hj'] at hj
          exact h.disj i j oi oj hi hj hij p hp
        · rw [List.getElem?_append_right (by omega)] at hj
          have : oj = (applySettings c.1 c.2.1 o0 settings).2.2 := by
            cases hjj : j - (objs st).length with
            | zero => rw [hjj] at hj; simpa using hj.symm
            | succ n => rw [hjj] at hj; simp at hj
          subst this
          intro hpj
          exact a2.disj p hpj (by simp only [allPtrs, List.mem_flatMap]; exact ⟨oi, List.mem_of_getElem? hi, hp⟩)
      · rw [List.getElem?_append_right (by omega)] at hi
        have : oi = (applySettings c.1 c.2.1 o0 settings).2.2 := by
          cases hii : i - (objs st).length with
          | zero => rw [hii] at hi; simpa using hi.symm
          | succ n => rw [hii] at hi; simp at hi
        subst this
        have hj' : j < (objs st).length := by
          rcases Nat.lt_or_ge j (objs st).length with hl | hl
          · exact hl
          · exfalso
            rw [List.getElem?_append_right hl] at hj
            have hii : i - (objs st).length = 0 := by
              cases hii : i - (objs st).length with
              | zero => rfl
              | succ n => rw [hii] at hi; simp at hi
            have hjj : j - (objs st).length = 0 := by
              cases hjj : j - (objs st).length with
              | zero => rfl
              | succ n => rw [hjj] at hj; simp at hj
            omega
        rw [List.getElem?_append_left hj'] at hj
        intro hpj
        exact a2.disj p hp (by simp only [allPtrs, List.mem_flatMap]; exact ⟨oj, List.mem_of_getElem? hj, hpj⟩)
  · -- defaults unchanged
    exact deref_congr _ _ _ (hold _ List.mem_cons_self)
  · -- the instances
    show List.map (deref (applySettings c.1 c.2.1 o0 settings).1)
        (st.insts ++ [(applySettings c.1 c.2.1 o0 settings).2.2]) = abs st ++ [settings.foldl specSetting (absD st)]
    rw [List.map_append]
    congr 1
    · apply List.map_congr_left
      intro o ho
      exact deref_congr _ _ _ (hold o (List.mem_cons_of_mem _ ho))
    · simp only [List.map_cons, List.map_nil, List.cons.injEq, and_true]
      rw [a4]
      congr 1
      simp only [deref, absD, Prod.mk.injEq]
      exact ⟨rfl, c4⟩

theorem step_mutate (st : St) (i k : Nat) (key val : String) (h : Inv st) :
    Inv (step st (.mutate i k key val)) ∧ absD (step st (.mutate i k key val)) = absD st ∧
    abs (step st (.mutate i k key val)) = specStep (absD st) (abs st) (.mutate i k key val) := by
  simp only [step, specStep, abs, List.getElem?_map]
  cases hi : st.insts[i]? with
  | none => simp only [Option.map_none]; exact ⟨h, by trivial, by trivial⟩
  | some o =>
    simp only [Option.map_some, deref, List.getElem?_map]
    cases hk : o.ptrs[k]? with
    | none => simp only [Option.map_none]; exact ⟨h, by trivial, by trivial⟩
    | some p =>
      simp only [Option.map_some]
      have hpm : p ∈ o.ptrs := List.mem_of_getElem? hk
      have hio : (objs st)[i + 1]? = some o := by simpa [objs] using hi
      -- the written cell belongs to instance i only
      have hother : ∀ (j : Nat) (oj : Opt), (objs st)[j]? = some oj → j ≠ i + 1 → p ∉ oj.ptrs :=
        fun j oj hj hne => h.disj (i + 1) j o oj hio hj (Ne.symm hne) p hpm
      refine ⟨⟨h.bound, h.nodup, h.disj⟩, ?_, ?_⟩
      · apply deref_congr
        intro q hq
        exact upd_ne _ p q _ (fun e => hother 0 st.defaults rfl (by omega) (e ▸ hq))
      · apply List.ext_getElem?
        intro j
        rw [List.getElem?_map]
        by_cases hji : j = i
        · subst hji
          have hlt : j < st.insts.length := (List.getElem?_eq_some_iff.mp hi).1
          rw [hi, List.getElem?_set_self (by simpa using hlt)]
          simp only [Option.map_some, deref, Option.some.injEq, Prod.mk.injEq, true_and]
          exact map_upd_nodup st.store _ o.ptrs k p (h.nodup o (List.mem_cons_of_mem _ (List.mem_of_getElem? hi))) hk
        · rw [List.getElem?_set_ne (Ne.symm hji), List.getElem?_map]
          cases hj : st.insts[j]? with
          | none => rfl
          | some oj =>
            simp only [Option.map_some, Option.some.injEq]
            apply deref_congr
            intro q hq
            have hjo : (objs st)[j + 1]? = some oj := by simpa [objs] using hj
            exact upd_ne _ p q _ (fun e => hother (j + 1) oj hjo (by omega) (e ▸ hq))

theorem step_refines (st : St) (op : Op) (h : Inv st) :
    Inv (step st op) ∧ absD (step st op) = absD st ∧ abs (step st op) = specStep (absD st) (abs st) op := by
  cases op with
  | new settings => exact step_new st settings h
  | mutate i k key val => exact step_mutate st i k key val h

/-- **refinement**: after any history of constructor calls and writes through instances, what can
    be read from the heap is what the value-level specification says, and the defaults are as they were -/
theorem run_refines (ops : List Op) (st : St) (h : Inv st) :
    Inv (run st ops) ∧ absD (run st ops) = absD st ∧ abs (run st ops) = specRun (absD st) (abs st) ops := by
  induction ops generalizing st with
  | nil => exact ⟨h, rfl, rfl⟩
  | cons op ops ih =>
    obtain ⟨h1, h2, h3⟩ := step_refines st op h
    obtain ⟨i1, i2, i3⟩ := ih (step st op) h1
    simp only [run, specRun, List.foldl_cons] at *
    refine ⟨i1, i2.trans h2, ?_⟩
    rw [i3, h2, h3]

end Protobom.Opts
