/- C05: what every parsed document looks like — closure, identifiers, counters. -/
import Protobom.Proofs.Cdx
import Protobom.Proofs.WF

namespace Protobom
open Gen Cdx

/-! ### the generated identifier -/

theorem toString_toList (n : Nat) : (toString n).toList = Nat.toDigits 10 n := by
  simp [toString, Nat.repr]

set_option linter.deprecated false in
theorem mk_toList (l : List Char) : (String.mk l).toList = l := by
  show (String.ofList l).toList = l
  exact String.toList_ofList

theorem pad9_toList (n : Nat) :
    (Str.pad9 n).toList = List.replicate (9 - (toString n).length) '0' ++ Nat.toDigits 10 n := by
  unfold Str.pad9
  simp only [String.toList_append, toString_toList, mk_toList]

theorem pad9_val (n : Nat) : Nat.ofDigitChars 10 (Str.pad9 n).toList 0 = n := by
  rw [pad9_toList, Nat.ofDigitChars_append, Nat.ofDigitChars_replicate_zero, Nat.mul_zero]
  exact Nat.ofDigitChars_ten_toDigits

theorem pad9_inj (a b : Nat) (h : Str.pad9 a = Str.pad9 b) : a = b := by
  rw [← pad9_val a, ← pad9_val b, h]

/-- the identifier-safe alphabet of SPDX and CycloneDX references: letters, digits, `.`, `-` -/
def idSafe (c : Char) : Bool := c.isAlphanum || c = '.' || c = '-'

theorem pad9_safe (n : Nat) : ∀ c ∈ (Str.pad9 n).toList, idSafe c = true := by
  intro c hc
  rw [pad9_toList, List.mem_append] at hc
  rcases hc with h | h
  · rw [List.mem_replicate] at h; rw [h.2]; decide
  · have := Nat.isDigit_of_mem_toDigits (by decide) (by decide) h
    simp [idSafe, Char.isAlphanum, this]

theorem autoId_safe (n : Nat) : ∀ c ∈ (autoId n).toList, idSafe c = true := by
  intro c hc
  unfold autoId at hc
  rw [String.toList_append, List.mem_append] at hc
  rcases hc with h | h
  · revert c; decide
  · exact pad9_safe n c h

theorem autoId_ne_empty (n : Nat) : autoId n ≠ "" := by
  intro h
  have : (autoId n).toList = [] := by rw [h]; rfl
  unfold autoId at this
  rw [String.toList_append] at this
  have h2 := (List.append_eq_nil_iff.mp this).1
  revert h2; decide

theorem autoId_inj (a b : Nat) (h : autoId a = autoId b) : a = b := by
  unfold autoId at h
  have := congrArg String.toList h
  rw [String.toList_append, String.toList_append] at this
  have h2 := List.append_cancel_left this
  apply pad9_inj
  exact String.toList_inj.mp h2

/-! ### one node per component, with the identifier the parser assigns -/

/-- the identifier the parser gives the component that is visited with counter value `cc` -/
def assignedId : Component → Nat → String
  | .mk r _ _ _ _ _ _ _ _ _ _ _ _, cc => if r = "" then autoId cc else r

theorem componentToNode_assigned (c : Component) (cc : Nat) : (componentToNode c cc).id = assignedId c cc := by
  cases c
  simp only [componentToNode, assignedId]

theorem assignedId_ne_empty (c : Component) (cc : Nat) : assignedId c cc ≠ "" := by
  cases c with
  | mk r =>
    simp only [assignedId]
    by_cases hr : r = ""
    · rw [if_pos hr]; exact autoId_ne_empty cc
    · rw [if_neg hr]; exact hr

/-! ### closure: every parsed CycloneDX node list is well-formed, whatever the input -/

theorem single_wf (n : Node) : ({ nodes := [n], edges := [], roots := [n.id] } : NodeList).WF := by
  refine ⟨?_, ?_, ?_, ?_⟩
  · simp [NodeList.ids]
  · intro e he; cases he
  · intro e he; cases he
  · intro r hr; simpa [NodeList.ids] using hr

theorem relate_getD_wf (a b : NodeList) (anchor : String) (ha : a.WF) (hb : b.WF) :
    ((a.relateNodeListAtID b anchor 5).getD a).WF := by
  cases h : a.relateNodeListAtID b anchor 5 with
  | none => exact ha
  | some r => exact relateNodeListAtID_wf a b anchor 5 r ha hb h

mutual
  theorem compToNL_wf : ∀ (c : Component) (cc : Nat), (compToNL c cc).1.WF
    | .mk r t n v d cp purl cpe lic hashes refs s ks, cc => by
      simp only [compToNL]
      exact compsToNL_wf ks (cc + 1) _ _ (single_wf _)
  theorem compsToNL_wf : ∀ (ks : List Component) (cc : Nat) (acc : NodeList) (anchor : String), acc.WF →
      (compsToNL ks cc acc anchor).1.WF
    | [], _, _, _, h => by simpa [compsToNL] using h
    | k :: ks, cc, acc, anchor, h => by
      simp only [compsToNL]
      exact compsToNL_wf ks _ _ anchor (relate_getD_wf acc _ anchor h (compToNL_wf k cc))
end

theorem empty_wf : ({} : NodeList).WF := by
  refine ⟨?_, ?_, ?_, ?_⟩
  · simp [NodeList.ids]
  · intro e he; cases he
  · intro e he; cases he
  · intro r hr; cases hr

theorem topFold_wf (tops : List Component) (st : NodeList × Nat) (h : st.1.WF) : (topFold tops st).1.WF := by
  induction tops generalizing st with
  | nil => simpa [topFold] using h
  | cons k ks ih =>
    simp only [topFold, List.foldl_cons]
    apply ih
    split
    · exact add_wf _ _ h (compToNL_wf k st.2)
    · exact relate_getD_wf _ _ _ h (compToNL_wf k st.2)

/-- **every parsed CycloneDX document is a closed graph with unique identifiers**: no hypothesis
    on nesting, duplicate or missing references, or the metadata component -/
theorem unserCDX_wf (b : Bom) : ∃ nl, (unserCDX b).nodeList = some nl ∧ nl.WF := by
  refine ⟨_, rfl, ?_⟩
  show (topFold b.components _).1.WF
  apply topFold_wf
  cases b.metaComponent with
  | none => exact empty_wf
  | some c => exact add_wf _ _ empty_wf (compToNL_wf c 0)

/-! ### the counter: one tick per component, in document order -/

mutual
  def Cdx.Component.size : Component → Nat
    | .mk _ _ _ _ _ _ _ _ _ _ _ _ ks => 1 + sizeL ks
  def sizeL : List Component → Nat
    | [] => 0
    | c :: cs => c.size + sizeL cs
end

mutual
  theorem compToNL_counter : ∀ (c : Component) (cc : Nat), (compToNL c cc).2 = cc + c.size
    | .mk r t n v d cp purl cpe lic hashes refs s ks, cc => by
      simp only [compToNL, Component.size]
      rw [compsToNL_counter ks (cc + 1)]
      omega
  theorem compsToNL_counter : ∀ (ks : List Component) (cc : Nat) (acc : NodeList) (anchor : String),
      (compsToNL ks cc acc anchor).2 = cc + sizeL ks
    | [], _, _, _ => by simp [compsToNL, sizeL]
    | k :: ks, cc, acc, anchor => by
      simp only [compsToNL, sizeL]
      rw [compsToNL_counter ks, compToNL_counter k cc]
      omega
end

/-! ### identifiers: every node carries an input reference or a generated identifier of its position -/

/-- `x` is the identifier assigned to some component of the subtree visited from counter `cc`:
    its own reference, or the generated identifier for its position in document order -/
def IdOf (x : String) (lo hi : Nat) (refs : List String) : Prop :=
  (x ∈ refs ∧ x ≠ "") ∨ ∃ k, lo < k ∧ k ≤ hi ∧ x = autoId k

theorem IdOf.mono {x : String} {lo hi lo' hi' : Nat} {refs refs' : List String}
    (h : IdOf x lo hi refs) (h1 : lo' ≤ lo) (h2 : hi ≤ hi') (h3 : ∀ y ∈ refs, y ∈ refs') : IdOf x lo' hi' refs' := by
  rcases h with ⟨a, b⟩ | ⟨k, a, b, c⟩
  · exact Or.inl ⟨h3 x a, b⟩
  · exact Or.inr ⟨k, by omega, by omega, c⟩

theorem mem_relate_getD (a b : NodeList) (anchor : String) (x : String)
    (h : x ∈ ((a.relateNodeListAtID b anchor 5).getD a).ids) : x ∈ a.ids ∨ x ∈ b.ids := by
  cases hr : a.relateNodeListAtID b anchor 5 with
  | none => rw [hr] at h; exact Or.inl h
  | some r => rw [hr] at h; exact (relate_ids a b anchor 5 r hr x).mp h

mutual
  theorem compToNL_ids : ∀ (c : Component) (cc : Nat) (x : String), x ∈ (compToNL c cc).1.ids →
      IdOf x cc (cc + c.size) c.refs
    | .mk r t n v d cp purl cpe lic hashes refs s ks, cc, x, hx => by
      simp only [compToNL] at hx
      have h := compsToNL_ids ks (cc + 1) _ _ x hx
      simp only [Component.size, Component.refs]
      rcases h with h | h
      · -- the node of this component
        simp only [NodeList.ids, List.map_cons, List.map_nil, List.mem_singleton] at h
        rw [componentToNode_assigned] at h
        rw [h]
        simp only [assignedId]
        by_cases hr : r = ""
        · rw [if_pos hr]; exact Or.inr ⟨cc + 1, by omega, by omega, rfl⟩
        · rw [if_neg hr]; exact Or.inl ⟨List.mem_cons_self, hr⟩
      · exact h.mono (by omega) (by omega) (fun y hy => List.mem_cons_of_mem _ hy)
  theorem compsToNL_ids : ∀ (ks : List Component) (cc : Nat) (acc : NodeList) (anchor : String) (x : String),
      x ∈ (compsToNL ks cc acc anchor).1.ids → x ∈ acc.ids ∨ IdOf x cc (cc + sizeL ks) (refsL ks)
    | [], _, _, _, x, hx => by simp only [compsToNL] at hx; exact Or.inl hx
    | k :: ks, cc, acc, anchor, x, hx => by
      simp only [compsToNL] at hx
      have h := compsToNL_ids ks _ _ anchor x hx
      rw [compToNL_counter k cc] at h
      simp only [sizeL, refsL]
      rcases h with h | h
      · rcases mem_relate_getD acc _ anchor x h with h | h
        · exact Or.inl h
        · exact Or.inr ((compToNL_ids k cc x h).mono (Nat.le_refl _) (by omega)
            (fun y hy => List.mem_append.mpr (Or.inl hy)))
      · exact Or.inr (h.mono (by omega) (by omega) (fun y hy => List.mem_append.mpr (Or.inr hy)))
end

theorem IdOf.ne_empty {x : String} {lo hi : Nat} {refs : List String} (h : IdOf x lo hi refs) : x ≠ "" := by
  rcases h with ⟨_, b⟩ | ⟨k, _, _, c⟩
  · exact b
  · rw [c]; exact autoId_ne_empty k

/-! ### SPDX: identifiers and endpoints are transferred verbatim -/

theorem unserSPDX_ids (d : Spdx.Doc) : ∃ nl, (Spdx.unserSPDX d).nodeList = some nl ∧
    nl.ids = d.packages.map (·.id) ++ d.files.map (·.id) := by
  refine ⟨_, rfl, ?_⟩
  simp only [NodeList.ids, List.map_append, List.map_map]
  congr 1

end Protobom

namespace Protobom
open Gen Cdx

def topStep (st : NodeList × Nat) (c : Component) : NodeList × Nat :=
  let r := compToNL c st.2
  match st.1.roots with
  | [] => (st.1.add r.1, r.2)
  | root :: _ => ((st.1.relateNodeListAtID r.1 root 5).getD st.1, r.2)

theorem topFold_cons (k : Component) (ks : List Component) (st : NodeList × Nat) :
    topFold (k :: ks) st = topFold ks (topStep st k) := rfl

theorem topStep_snd (st : NodeList × Nat) (c : Component) : (topStep st c).2 = st.2 + c.size := by
  unfold topStep
  simp only
  split <;> exact compToNL_counter c st.2

theorem topFold_counter (tops : List Component) (st : NodeList × Nat) :
    (topFold tops st).2 = st.2 + sizeL tops := by
  induction tops generalizing st with
  | nil => simp [topFold, sizeL]
  | cons k ks ih =>
    rw [topFold_cons, ih, topStep_snd]
    simp only [sizeL]; omega

theorem topFold_ids (tops : List Component) (st : NodeList × Nat) (x : String)
    (hx : x ∈ (topFold tops st).1.ids) : x ∈ st.1.ids ∨ IdOf x st.2 (st.2 + sizeL tops) (refsL tops) := by
  induction tops generalizing st with
  | nil => simp only [topFold, List.foldl_nil] at hx; exact Or.inl hx
  | cons k ks ih =>
    simp only [topFold, List.foldl_cons] at hx
    have h := ih _ hx
    simp only [sizeL, refsL]
    have hk : ∀ y, y ∈ (compToNL k st.2).1.ids → IdOf y st.2 (st.2 + (k.size + sizeL ks)) (k.refs ++ refsL ks) :=
      fun y hy => (compToNL_ids k st.2 y hy).mono (Nat.le_refl _) (by omega)
        (fun z hz => List.mem_append.mpr (Or.inl hz))
    split at h
    · simp only at h
      rw [compToNL_counter] at h
      rcases h with h | h
      · rcases (add_ids _ _ x).mp h with h | h
        · exact Or.inl h
        · exact Or.inr (hk x h)
      · exact Or.inr (h.mono (by omega) (by omega) (fun z hz => List.mem_append.mpr (Or.inr hz)))
    · simp only at h
      rw [compToNL_counter] at h
      rcases h with h | h
      · rcases mem_relate_getD _ _ _ x h with h | h
        · exact Or.inl h
        · exact Or.inr (hk x h)
      · exact Or.inr (h.mono (by omega) (by omega) (fun z hz => List.mem_append.mpr (Or.inr hz)))

/-- all references of a BOM, metadata component first -/
def bomRefs (b : Bom) : List String :=
  (match b.metaComponent with | some c => c.refs | none => []) ++ refsL b.components

def bomSize (b : Bom) : Nat :=
  (match b.metaComponent with | some c => c.size | none => 0) + sizeL b.components

/-- every identifier of a parsed CycloneDX document is a non-empty reference of the input or the
    generated identifier of a position `1 … number of components` -/
theorem unserCDX_ids (b : Bom) : ∃ nl, (unserCDX b).nodeList = some nl ∧
    ∀ x ∈ nl.ids, IdOf x 0 (bomSize b) (bomRefs b) := by
  refine ⟨_, rfl, ?_⟩
  intro x hx
  change x ∈ (topFold b.components _).1.ids at hx
  unfold bomSize bomRefs
  cases hm : b.metaComponent with
  | none =>
    simp only
    rw [hm] at hx
    rcases topFold_ids _ _ x hx with h | h
    · simp [NodeList.ids] at h
    · simpa using h
  | some c =>
    simp only
    rw [hm] at hx
    rcases topFold_ids _ _ x hx with h | h
    · simp only at h
      rcases (add_ids _ _ x).mp h with h | h
      · simp [NodeList.ids] at h
      · exact (compToNL_ids c 0 x h).mono (Nat.le_refl _) (by omega) (fun z hz => List.mem_append.mpr (Or.inl hz))
    · simp only at h
      rw [compToNL_counter] at h
      exact h.mono (by omega) (by omega) (fun z hz => List.mem_append.mpr (Or.inr hz))

end Protobom
