/- `connectedIndexRecursion` (worklist form) computes exactly the bounded reachability relation. -/
import Protobom.Proofs.WF

namespace Protobom

/-- a node the traversal may enter: present and not a boundary (root element) -/
def Allowed (nl : NodeList) (bnd : List String) (y : String) : Prop := y ∈ nl.ids ∧ y ∉ bnd

/-- paths along `succ` whose every entered node is allowed -/
inductive Path (nl : NodeList) (bnd : List String) : String → String → Prop
  | refl (x) : Path nl bnd x x
  | step {x y z} : y ∈ nl.succ x → Allowed nl bnd y → Path nl bnd y z → Path nl bnd x z

theorem Path.trans {nl : NodeList} {bnd : List String} {x y z : String}
    (h1 : Path nl bnd x y) (h2 : Path nl bnd y z) : Path nl bnd x z := by
  induction h1 with
  | refl => exact h2
  | step hs ha _ ih => exact Path.step hs ha (ih h2)

theorem succ_mem_ids (nl : NodeList) (x y : String) (h : y ∈ nl.succ x) : y ∈ nl.ids := by
  unfold NodeList.succ at h
  split at h
  · cases h
  · exact (by simpa using (List.mem_filter.mp h).2)

/-- invariant of the worklist: allowed successors of every seen node are seen or pending -/
def ReachInv (nl : NodeList) (bnd stack seen : List String) : Prop :=
  ∀ x ∈ seen, ∀ y ∈ nl.succ x, Allowed nl bnd y → y ∈ seen ∨ y ∈ stack

theorem reach_spec (nl : NodeList) (bnd stack seen : List String) (hinv : ReachInv nl bnd stack seen) :
    let R := nl.reach bnd stack seen
    (∀ x ∈ stack, Allowed nl bnd x → x ∈ R) ∧
    (∀ x ∈ R, ∀ y ∈ nl.succ x, Allowed nl bnd y → y ∈ R) ∧
    (∀ z ∈ R, z ∈ seen ∨ ∃ x ∈ stack, Allowed nl bnd x ∧ Path nl bnd x z) := by
  induction stack, seen using NodeList.reach.induct (nl := nl) (bnd := bnd) with
  | case1 seen =>
    simp only [NodeList.reach]
    refine ⟨by simp, ?_, fun z hz => Or.inl hz⟩
    intro x hx y hy ha
    rcases hinv x hx y hy ha with h | h
    · exact h
    · cases h
  | case2 x stack seen hc ih =>
    rw [NodeList.reach]; simp only [hc, dite_true]
    have hinv' : ReachInv nl bnd stack seen := by
      intro x' hx' y hy ha
      rcases hinv x' hx' y hy ha with h | h
      · exact Or.inl h
      · cases h with
        | head =>
          rcases hc with h1 | h1 | h1
          · exact Or.inl h1
          · exact absurd h1 ha.2
          · exact absurd ha.1 h1
        | tail _ h' => exact Or.inr h'
    obtain ⟨h1, h2, h3⟩ := ih hinv'
    refine ⟨?_, h2, ?_⟩
    · intro y hy ha
      cases hy with
      | head =>
        rcases hc with h | h | h
        · exact reach_sup nl bnd stack seen _ h
        · exact absurd h ha.2
        · exact absurd ha.1 h
      | tail _ h' => exact h1 y h' ha
    · intro z hz
      rcases h3 z hz with h | ⟨w, hw, hwa, hp⟩
      · exact Or.inl h
      · exact Or.inr ⟨w, List.mem_cons_of_mem _ hw, hwa, hp⟩
  | case3 x stack seen hc ih =>
    rw [NodeList.reach]; simp only [hc, dite_false]
    have hx : x ∉ seen ∧ Allowed nl bnd x := by
      refine ⟨fun h => hc (Or.inl h), ?_, fun h => hc (Or.inr (Or.inl h))⟩
      exact Classical.byContradiction (fun h => hc (Or.inr (Or.inr h)))
    have hinv' : ReachInv nl bnd (nl.succ x ++ stack) (x :: seen) := by
      intro x' hx' y hy ha
      cases hx' with
      | head => exact Or.inr (List.mem_append.mpr (Or.inl hy))
      | tail _ h' =>
        rcases hinv x' h' y hy ha with h | h
        · exact Or.inl (List.mem_cons_of_mem _ h)
        · cases h with
          | head => exact Or.inl List.mem_cons_self
          | tail _ h'' => exact Or.inr (List.mem_append.mpr (Or.inr h''))
    obtain ⟨h1, h2, h3⟩ := ih hinv'
    refine ⟨?_, h2, ?_⟩
    · intro y hy ha
      cases hy with
      | head => exact reach_sup nl bnd _ _ _ List.mem_cons_self
      | tail _ h' => exact h1 y (List.mem_append.mpr (Or.inr h')) ha
    · intro z hz
      rcases h3 z hz with h | ⟨w, hw, hwa, hp⟩
      · cases h with
        | head => exact Or.inr ⟨_, List.mem_cons_self, hx.2, Path.refl _⟩
        | tail _ h' => exact Or.inl h'
      · rcases List.mem_append.mp hw with h | h
        · exact Or.inr ⟨x, List.mem_cons_self, hx.2, Path.step h hwa hp⟩
        · exact Or.inr ⟨w, List.mem_cons_of_mem _ h, hwa, hp⟩

/-- closed sets contain everything reachable from their members -/
theorem closed_path (nl : NodeList) (bnd : List String) (R : List String)
    (hcl : ∀ x ∈ R, ∀ y ∈ nl.succ x, Allowed nl bnd y → y ∈ R) {x z : String}
    (hp : Path nl bnd x z) (hx : x ∈ R) : z ∈ R := by
  induction hp with
  | refl => exact hx
  | step hs ha _ ih => exact ih (hcl _ hx _ hs ha)

/-- the connected index of `id` is exactly the set of nodes reachable from it along directed
    edges through present, non-root nodes (the start node itself may be a root) -/
theorem connected_iff (nl : NodeList) (id z : String) :
    z ∈ nl.connected id ↔ Path nl nl.roots id z := by
  unfold NodeList.connected
  have hinv : ReachInv nl nl.roots (nl.succ id) [id] := by
    intro x hx y hy _
    simp only [List.mem_singleton] at hx
    subst hx
    exact Or.inr hy
  obtain ⟨h1, h2, h3⟩ := reach_spec nl nl.roots (nl.succ id) [id] hinv
  constructor
  · intro hz
    rcases h3 z hz with h | ⟨w, hw, hwa, hp⟩
    · simp only [List.mem_singleton] at h; subst h; exact Path.refl _
    · exact Path.step hw hwa hp
  · intro hp
    exact closed_path nl nl.roots _ h2 hp (reach_sup nl _ _ _ _ (by simp))

theorem connected_sub_ids (nl : NodeList) (id z : String) (hid : id ∈ nl.ids)
    (hz : z ∈ nl.connected id) : z ∈ nl.ids := by
  have hp := (connected_iff nl id z).mp hz
  clear hz
  induction hp with
  | refl => exact hid
  | step _ ha _ ih => exact ih ha.1

theorem nodeGraph_ids (nl : NodeList) (id : String) (r : NodeList) (h : nl.nodeGraph id = some r)
    (z : String) : z ∈ r.ids ↔ Path nl nl.roots id z := by
  unfold NodeList.nodeGraph at h
  split at h
  · rename_i hin
    simp only [Option.some.injEq] at h
    subst h
    show z ∈ (nl.nodesOf (nl.connected id)).map (·.id) ↔ _
    rw [nodesOf_ids, List.mem_filter, ← connected_iff]
    exact ⟨fun hh => hh.1, fun hh => ⟨hh, decide_eq_true (connected_sub_ids nl id z hin hh)⟩⟩
  · cases h

theorem nodeGraph_roots (nl : NodeList) (id : String) (r : NodeList) (h : nl.nodeGraph id = some r) :
    r.roots = [id] := by
  unfold NodeList.nodeGraph at h
  split at h
  · simp only [Option.some.injEq] at h; subst h; rfl
  · cases h

theorem hasEdgeL_filter_src (es : List Edge) (p : String → Prop) [DecidablePred p] (s t d) :
    HasEdgeL (es.filter (fun e => p e.src)) s t d ↔ HasEdgeL es s t d ∧ p s := by
  unfold HasEdgeL
  simp only [List.mem_filter, decide_eq_true_eq]
  constructor
  · rintro ⟨e, ⟨he, hp⟩, rfl, h2, h3⟩; exact ⟨⟨e, he, rfl, h2, h3⟩, hp⟩
  · rintro ⟨⟨e, he, rfl, h2, h3⟩, hp⟩; exact ⟨e, ⟨he, hp⟩, rfl, h2, h3⟩

theorem nodeGraph_edges (nl : NodeList) (id : String) (r : NodeList) (h : nl.nodeGraph id = some r)
    (s : String) (t : Int) (d : String) :
    r.HasEdge s t d ↔ nl.HasEdge s t d ∧ s ∈ r.ids ∧ d ∈ r.ids := by
  have hr := h
  unfold NodeList.nodeGraph at h
  split at h
  · rename_i hin
    simp only [Option.some.injEq] at h
    subst h
    rw [cleanEdges_rel]
    simp only [NodeList.HasEdge]
    rw [hasEdgeL_filter_src nl.edges (fun s => s ∈ nl.connected id)]
    constructor
    · rintro ⟨⟨h1, _⟩, h2, h3⟩; exact ⟨h1, h2, h3⟩
    · rintro ⟨h1, h2, h3⟩
      refine ⟨⟨h1, ?_⟩, h2, h3⟩
      have := (nodeGraph_ids nl id _ hr s).mp h2
      exact (connected_iff nl id s).mpr this
  · cases h

/-! ### one hop -/

theorem nodeSiblings_ids (nl : NodeList) (id : String) (r : NodeList) (h : nl.nodeSiblings id = some r)
    (hin : id ∈ nl.ids) (z : String) : z ∈ r.ids ↔ z = id ∨ z ∈ nl.succ id := by
  unfold NodeList.nodeSiblings at h
  split at h
  · cases h
  · rename_i hne
    simp only [hin, if_true, Option.some.injEq] at h
    subst h
    show z ∈ (nl.nodesOf _).map (·.id) ↔ _
    rw [nodesOf_ids]
    simp only [NodeList.succ, hne, if_false, List.mem_filter, List.mem_eraseDups, List.mem_cons,
      decide_eq_true_eq]
    constructor
    · rintro ⟨h1 | h1, h2⟩
      · exact Or.inl h1
      · exact Or.inr ⟨h1, h2⟩
    · rintro (h1 | ⟨h1, h2⟩)
      · exact ⟨Or.inl h1, h1 ▸ hin⟩
      · exact ⟨Or.inr h1, h2⟩

theorem nodeSiblings_edges (nl : NodeList) (id : String) (r : NodeList) (h : nl.nodeSiblings id = some r)
    (hin : id ∈ nl.ids) (s : String) (t : Int) (d : String) :
    r.HasEdge s t d ↔ nl.HasEdge s t d ∧ s = id ∧ d ∈ r.ids := by
  have hr := h
  unfold NodeList.nodeSiblings at h
  split at h
  · cases h
  · simp only [hin, if_true, Option.some.injEq] at h
    subst h
    rw [cleanEdges_rel]
    simp only [NodeList.HasEdge]
    rw [hasEdgeL_filter_src nl.edges (fun s => s = id)]
    constructor
    · rintro ⟨⟨h1, h2⟩, _, h4⟩; exact ⟨h1, h2, h4⟩
    · rintro ⟨h1, h2, h4⟩
      refine ⟨⟨h1, h2⟩, ?_, h4⟩
      rw [h2]
      exact (nodeSiblings_ids nl id _ hr hin id).mpr (Or.inl rfl)

end Protobom
