/- `sortedByKey` (the entries of a Go map in ascending key order) on key-unique lists -/
import Protobom.Proofs.Flat

namespace Protobom

theorem sortedByKey_keys (m : List (Int × String)) : (sortedByKey m).map (·.1) = sortInts (m.map (·.1)) := by
  unfold sortedByKey
  have hmem : ∀ k ∈ sortInts (m.map (·.1)), ∃ v, m.lookup k = some v := by
    intro k hk
    have hk' : k ∈ m.map (·.1) := (List.mergeSort_perm _ _).mem_iff.mp hk
    obtain ⟨kv, hkv, rfl⟩ := List.mem_map.mp hk'
    clear hk hk'
    induction m with
    | nil => cases hkv
    | cons x xs ih =>
      obtain ⟨xk, xv⟩ := x
      simp only [List.lookup_cons]
      by_cases e : kv.1 = xk
      · simp [e]
      · have e' : (kv.1 == xk) = false := by simpa using e
        simp only [e']
        rcases List.mem_cons.mp hkv with h | h
        · exact absurd (by rw [h]) e
        · exact ih h
  generalize sortInts (m.map (·.1)) = l at hmem
  induction l with
  | nil => rfl
  | cons k ks ih =>
    obtain ⟨v, hv⟩ := hmem k List.mem_cons_self
    simp only [List.filterMap_cons, hv, Option.map_some, List.map_cons]
    rw [ih (fun k' hk' => hmem k' (List.mem_cons_of_mem _ hk'))]

theorem sortedByKey_keys_nodup (m : List (Int × String)) (h : (m.map (·.1)).Nodup) :
    ((sortedByKey m).map (·.1)).Nodup := by
  rw [sortedByKey_keys]
  exact (List.mergeSort_perm _ _).nodup_iff.mpr h

theorem sortedByKey_keys_mem (m : List (Int × String)) (k : Int) :
    k ∈ (sortedByKey m).map (·.1) ↔ k ∈ m.map (·.1) := by
  rw [sortedByKey_keys]
  exact (List.mergeSort_perm _ _).mem_iff

theorem mem_of_lookup_some {m : List (Int × String)} {k : Int} {v : String} (h : m.lookup k = some v) : (k, v) ∈ m := by
  induction m with
  | nil => cases h
  | cons x xs ih =>
    obtain ⟨xk, xv⟩ := x
    simp only [List.lookup_cons] at h
    by_cases e : k = xk
    · have e' : (k == xk) = true := by simpa using e
      simp only [e', Option.some.injEq] at h
      rw [e, h]; exact List.mem_cons_self
    · have e' : (k == xk) = false := by simpa using e
      simp only [e'] at h
      exact List.mem_cons_of_mem _ (ih h)

theorem nodup_of_map_nodup {α β} (f : α → β) : ∀ {l : List α}, (l.map f).Nodup → l.Nodup
  | [], _ => List.nodup_nil
  | x :: xs, h => by
    rw [List.map_cons, List.nodup_cons] at h
    rw [List.nodup_cons]
    exact ⟨fun hx => h.1 (List.mem_map.mpr ⟨x, hx, rfl⟩), nodup_of_map_nodup f h.2⟩

/-- `sortedByKey` of a key-unique map is a rearrangement of it -/
theorem sortedByKey_perm_self (m : List (Int × String)) (hnd : (m.map (·.1)).Nodup) : (sortedByKey m).Perm m := by
  -- both are key-unique with the same entries
  have hsub : ∀ kv, kv ∈ sortedByKey m ↔ kv ∈ m := by
    intro kv
    unfold sortedByKey
    simp only [List.mem_filterMap, Option.map_eq_some_iff]
    constructor
    · rintro ⟨k, _, v, hv, rfl⟩
      exact mem_of_lookup_some hv
    · intro h
      refine ⟨kv.1, (List.mergeSort_perm _ _).mem_iff.mpr (List.mem_map.mpr ⟨kv, h, rfl⟩), kv.2, ?_, rfl⟩
      induction m with
      | nil => cases h
      | cons x xs ih =>
        obtain ⟨xk, xv⟩ := x
        have hnd' : xk ∉ xs.map (·.1) ∧ (xs.map (·.1)).Nodup :=
        List.nodup_cons.mp (by rw [List.map_cons] at hnd; exact hnd)
        simp only [List.lookup_cons]
        rcases List.mem_cons.mp h with e | e
        · rw [e]; simp
        · have : kv.1 ≠ xk := by
            intro e'
            exact hnd'.1 (List.mem_map.mpr ⟨kv, e, e'⟩)
          have e' : (kv.1 == xk) = false := by simpa using this
          simp only [e']
          exact ih hnd'.2 e
  have hnd1 : (sortedByKey m).Nodup := nodup_of_map_nodup _ (sortedByKey_keys_nodup m hnd)
  have hnd2 : m.Nodup := nodup_of_map_nodup _ hnd
  exact (List.perm_ext_iff_of_nodup hnd1 hnd2).mpr hsub

theorem sortedByKey_idem (m : List (Int × String)) (hnd : (m.map (·.1)).Nodup) :
    sortedByKey (sortedByKey m) = sortedByKey m :=
  sortedByKey_perm (sortedByKey_perm_self m hnd) (sortedByKey_keys_nodup m hnd)

end Protobom
