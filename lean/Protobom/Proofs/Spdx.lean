/- SPDX 2.3 round trip: table lemmas, graph shape, per-attribute lemmas. -/
import Protobom.Model.Spdx
import Protobom.Proofs.CleanEdges

namespace Protobom.Spdx
open Protobom Gen

/-! ### tables (regenerated; checked by evaluation) -/

/-- all relationship types the model shares with SPDX (every enum value except UNKNOWN)
    survive the name table and its inverse exactly -/
theorem edge_types_roundtrip :
    ∀ nt ∈ Schema.edgeTypes, nt.2 ≠ 0 → edgeFromSPDX2 (edgeToSPDX2 nt.2) = nt.2 := by decide

theorem edge_types_count : (Schema.edgeTypes.filter (·.2 ≠ 0)).length = 44 := by decide

/-- the SPDX names of the relationship types are pairwise different and none of them is empty -/
theorem edge_names_injective :
    ((Schema.edgeTypes.filter (·.2 ≠ 0)).map (fun nt => edgeToSPDX2 nt.2)).Nodup ∧
    ∀ nt ∈ Schema.edgeTypes, nt.2 ≠ 0 → edgeToSPDX2 nt.2 ≠ "" := by decide

/-- the checksum algorithms SPDX can name -/
def spdxHashes : List Int := (Schema.hashAlgorithms.map (·.2)).filter (fun a => hashToSPDX a ≠ "")

theorem hash_algos_count : spdxHashes.length = 16 := by decide

theorem hash_algos_roundtrip : ∀ a ∈ spdxHashes, hashFromSPDX (hashToSPDX a) = a ∧ a ≠ 0 ∧ knownHash a = true := by
  decide

/-- purl / CPE 2.2 / CPE 2.3 / gitoid identifiers come back under the same key -/
theorem identifier_types_roundtrip :
    ∀ k ∈ [1, 2, 3, 4], (extRefKey (identCategory k) (identType k)) = ["i:-1", "true", "nil"] ∧ identIn (identType k) = k := by
  decide

/-- the eight external-reference types SPDX can express come back as themselves, not as identifiers -/
def spdxRefTypes : List Int := [4, 26, 29, 30, 31, 44, 46, 47]

/-- reading back the category and type the serializer writes for reference type `t` -/
def refTypeBack (t : Int) : Option Int :=
  match extRefKey (refCategory t) (refType t) with
  | [c, "false", "nil"] => some (colInt c)
  | _ => none

theorem extref_types_roundtrip : ∀ t ∈ spdxRefTypes, refTypeBack t = some t := by decide

/-- the twelve native SPDX purposes -/
def spdxPurposes : List Int := [1, 2, 5, 7, 12, 13, 14, 15, 16, 21, 22, 26]

theorem purposes_roundtrip : ∀ p ∈ spdxPurposes, purposeIn (purposeOut [p]) = [p] := by decide

/-! ### attribute access on nodes built from the schema -/

theorem attr_of_schema_map (g : String → Kind → Val) (id : String) (t : Int) (f : String) (k : Kind)
    (h : (f, k) ∈ Schema.nodeAttrs) (hu : (Schema.nodeAttrs.map (·.1)).Nodup) :
    ({ id := id, typ := t, attrs := Schema.nodeAttrs.map (fun fk => g fk.1 fk.2) } : Node).attr f = some (g f k) := by
  unfold Node.attr attrIdx
  -- general statement over any key-unique association list
  suffices H : ∀ (l : List (String × Kind)), (l.map (·.1)).Nodup → (f, k) ∈ l →
      (match l.findIdx? (fun x => decide (x.1 = f)) with
       | some i => (l.map (fun fk => g fk.1 fk.2))[i]?
       | none => none) = some (g f k) from H _ hu h
  intro l
  induction l with
  | nil => intro _ hm; cases hm
  | cons x xs ih =>
    intro hnd hm
    rw [List.map_cons] at hnd
    have hnd' := List.nodup_cons.mp hnd
    simp only [List.findIdx?_cons]
    by_cases hx : x.1 = f
    · simp only [hx, decide_true, if_true, List.map_cons, List.getElem?_cons_zero]
      cases hm with
      | head => rfl
      | tail _ hm' =>
        exfalso; apply hnd'.1; rw [hx]; exact List.mem_map.mpr ⟨(f, k), hm', rfl⟩
    · have hm' : (f, k) ∈ xs := by
        cases hm with
        | head => exact absurd rfl hx
        | tail _ h' => exact h'
      simp only [hx, decide_false, Bool.false_eq_true, if_false]
      have := ih hnd'.2 hm'
      cases hfi : xs.findIdx? (fun x => decide (x.1 = f)) with
      | none => rw [hfi] at this; cases this
      | some i =>
        rw [hfi] at this
        simpa using this

theorem schema_keys_nodup : (Schema.nodeAttrs.map (·.1)).Nodup := by decide

/-! ### identifiers under the codec -/

theorem splitFirstL_prefix (sep rest acc : List Char) (h : sep ≠ []) :
    Str.splitFirstL sep acc (sep ++ rest) = some (acc.reverse, rest) := by
  cases sep with
  | nil => exact absurd rfl h
  | cons c cs =>
    simp only [List.cons_append, Str.splitFirstL]
    have : (c :: cs).isPrefixOf (c :: (cs ++ rest)) = true := by
      rw [← List.cons_append]; exact List.isPrefixOf_iff_prefix.mpr (List.prefix_append _ _)
    simp [this]

/-- an identifier that does not already start with `SPDXRef-` is unchanged by the codec -/
theorem codecId_of_noPrefix (s : String) (h : Str.hasPrefix s "SPDXRef-" = false) : codecId s = s := by
  unfold codecId
  simp only [h, Bool.false_eq_true, if_false]
  unfold Str.splitFirst
  have : ("SPDXRef-" ++ s).toList = "SPDXRef-".toList ++ s.toList := String.toList_append
  rw [this, splitFirstL_prefix _ _ _ (by decide)]
  simp [String.mk]

end Protobom.Spdx

namespace Protobom.Spdx
open Protobom Gen

/-! ### the graph survives write-then-read -/

theorem mapOutcome_id {α} (f : α → Outcome α) (l : List α) (h : ∀ a ∈ l, f a = .ok a) :
    mapOutcome f l = .ok l := by
  induction l with
  | nil => rfl
  | cons a as ih =>
    simp only [mapOutcome, h a List.mem_cons_self, Outcome.bind, Outcome.map,
      ih (fun b hb => h b (List.mem_cons_of_mem _ hb))]

/-- the relationships the serializer writes for the edges -/
def edgeRels (es : List Edge) : List Rel :=
  es.flatMap (fun e => e.tos.map (fun d => { a := e.src, rel := edgeToSPDX2 e.ty, b := d }))

def rootRels (rs : List String) : List Rel := rs.map (fun r => { a := "DOCUMENT", rel := "DESCRIBES", b := r })

theorem relsOf_eq (nl : NodeList) : relsOf nl = edgeRels nl.edges ++ rootRels nl.roots := rfl

def isRootRel (r : Rel) : Bool := r.a = "DOCUMENT" ∧ equalFoldAscii r.rel "DESCRIBES"

theorem filter_append_split {α} (p : α → Bool) (l₁ l₂ : List α) (h1 : ∀ x ∈ l₁, p x = false)
    (h2 : ∀ x ∈ l₂, p x = true) :
    (l₁ ++ l₂).filter p = l₂ ∧ (l₁ ++ l₂).filter (fun x => !p x) = l₁ := by
  constructor
  · rw [List.filter_append, List.filter_eq_nil_iff.mpr (fun x hx => by simp [h1 x hx]),
        List.filter_eq_self.mpr h2, List.nil_append]
  · rw [List.filter_append, List.filter_eq_self.mpr (fun x hx => by simp [h1 x hx]),
        List.filter_eq_nil_iff.mpr (fun x hx => by simp [h2 x hx]), List.append_nil]

/-- edges of the class: sources are not the reserved identifier `DOCUMENT` -/
theorem edgeRels_not_root (es : List Edge) (h : ∀ e ∈ es, e.src ≠ "DOCUMENT") :
    ∀ r ∈ edgeRels es, isRootRel r = false := by
  intro r hr
  unfold edgeRels at hr
  obtain ⟨e, he, hr'⟩ := List.mem_flatMap.mp hr
  obtain ⟨d, _, rfl⟩ := List.mem_map.mp hr'
  simp [isRootRel, h e he]

theorem rootRels_root (rs : List String) : ∀ r ∈ rootRels rs, isRootRel r = true := by
  intro r hr
  obtain ⟨x, _, rfl⟩ := List.mem_map.mp hr
  have : equalFoldAscii "DESCRIBES" "DESCRIBES" = true := by decide
  simp [isRootRel, this]

/-- reading the edge relationships back: one single-target edge per (edge, target) -/
def edgesBack (es : List Edge) : List Edge :=
  (edgeRels es).map (fun r => { ty := edgeFromSPDX2 r.rel, src := r.a, tos := [r.b] })

theorem hasEdge_edgesBack (es : List Edge) (ht : ∀ e ∈ es, edgeFromSPDX2 (edgeToSPDX2 e.ty) = e.ty)
    (s : String) (t : Int) (d : String) : HasEdgeL (edgesBack es) s t d ↔ HasEdgeL es s t d := by
  unfold edgesBack edgeRels HasEdgeL
  simp only [List.mem_map, List.mem_flatMap]
  constructor
  · rintro ⟨e', ⟨r, ⟨e, he, x, hx, rfl⟩, rfl⟩, h1, h2, h3⟩
    simp only at h1 h2 h3
    refine ⟨e, he, h1, ?_, ?_⟩
    · rw [← h2]; exact (ht e he).symm
    · simp only [List.mem_singleton] at h3; rw [h3]; exact hx
  · rintro ⟨e, he, h1, h2, h3⟩
    exact ⟨_, ⟨_, ⟨e, he, d, h3, rfl⟩, rfl⟩, h1, by simp only; rw [ht e he]; exact h2, by simp⟩

end Protobom.Spdx
