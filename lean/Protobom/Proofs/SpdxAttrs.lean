/- Whole-collection attribute lemmas for the SPDX round trip (hash maps, reference lists and
   identifier maps of any size), and the node-level second-pass fixpoint for packages. -/
import Protobom.Proofs.Spdx
import Protobom.Proofs.SortedByKey

namespace Protobom.Spdx
open Protobom Gen

/-! ### checksums -/

theorem hashesOfChecksums_filterMap (L acc : List (Int × String))
    (hk : ∀ kv ∈ L, kv.1 ∈ spdxHashes) (hnd : (L.map (·.1)).Nodup) (hdis : ∀ kv ∈ L, ∀ a ∈ acc, a.1 ≠ kv.1) :
    (L.filterMap (fun kv =>
      if knownHash kv.1 then
        let a := hashToSPDX kv.1
        if a = "" then none else some ({ algo := a, value := kv.2 } : Checksum)
      else none)).foldl (fun m c => let a := hashFromSPDX c.algo; if a = 0 then m else mapStore m a c.value) acc =
    acc ++ L := by
  induction L generalizing acc with
  | nil => simp
  | cons kv rest ih =>
    obtain ⟨k, val⟩ := kv
    have hk1 := hash_algos_roundtrip k (hk (k, val) List.mem_cons_self)
    have hne : hashToSPDX k ≠ "" := by
      have : k ∈ spdxHashes := hk (k, val) List.mem_cons_self
      unfold spdxHashes at this
      simpa using (List.mem_filter.mp this).2
    have hnd' : k ∉ rest.map (·.1) ∧ (rest.map (·.1)).Nodup :=
      List.nodup_cons.mp (by rw [List.map_cons] at hnd; exact hnd)
    have hnot : acc.any (fun x => decide (x.1 = k)) = false := by
      rw [List.any_eq_false]
      intro a ha
      simpa using hdis (k, val) List.mem_cons_self a ha
    have hst : mapStore acc k val = acc ++ [(k, val)] := by simp [mapStore, hnot]
    simp only [List.filterMap_cons, hk1.2.2, if_true, hne, if_false, List.foldl_cons, hk1.1, hk1.2.1, hst]
    rw [ih (acc ++ [(k, val)]) (fun kv h => hk kv (List.mem_cons_of_mem _ h)) hnd'.2]
    · simp
    · intro kv hkv a ha
      rcases List.mem_append.mp ha with h | h
      · exact hdis kv (List.mem_cons_of_mem _ hkv) a h
      · simp only [List.mem_singleton] at h
        rw [h]
        intro e
        exact hnd'.1 (List.mem_map.mpr ⟨kv, hkv, e.symm⟩)

theorem sortedByKey_in (m : List (Int × String)) (S : List Int) (hk : ∀ kv ∈ m, kv.1 ∈ S) :
    ∀ kv ∈ sortedByKey m, kv.1 ∈ S := by
  intro kv hkv
  have : kv.1 ∈ m.map (·.1) := (sortedByKey_keys_mem m kv.1).mp (List.mem_map.mpr ⟨kv, hkv, rfl⟩)
  obtain ⟨kv', h', e⟩ := List.mem_map.mp this
  rw [← e]; exact hk kv' h'

/-- a hash map over the sixteen shared algorithms comes back with exactly its entries -/
theorem hashes_roundtrip (n : Node) (hk : ∀ kv ∈ n.hashes, kv.1 ∈ spdxHashes) (hnd : (n.hashes.map (·.1)).Nodup) :
    hashesOfChecksums (checksumsOf n) = sortedByKey n.hashes := by
  unfold hashesOfChecksums checksumsOf
  have := hashesOfChecksums_filterMap (sortedByKey n.hashes) [] (sortedByKey_in _ _ hk)
    (sortedByKey_keys_nodup _ hnd) (by intro _ _ a ha; cases ha)
  simpa using this

/-! ### external references and identifiers -/

def refOut (e : Protobom.ExtRef) : ExtRef :=
  { category := refCategory e.typ, refType := refType e.typ, locator := e.url, comment := e.comment }

def idOut (kv : Int × String) : ExtRef :=
  { category := identCategory kv.1, refType := identType kv.1, locator := kv.2 }

def refsInStep (st : List Protobom.ExtRef × List (Int × String)) (r : ExtRef) : List Protobom.ExtRef × List (Int × String) :=
  match extRefKey r.category r.refType with
  | [t, isId, err] =>
    if err = "err" then st
    else if isId = "true" then
      let it := identIn r.refType
      if it = 0 then st else (st.1, mapStore st.2 it r.locator)
    else (st.1 ++ [{ url := r.locator, typ := colInt t, comment := r.comment }], st.2)
  | _ => st

theorem refsIn_eq_fold (rs : List ExtRef) : refsIn rs = rs.foldl refsInStep ([], []) := rfl

theorem refsInStep_ref (st : List Protobom.ExtRef × List (Int × String)) (e : Protobom.ExtRef) (ht : e.typ ∈ spdxRefTypes) :
    refsInStep st (refOut e) = (st.1 ++ [{ url := e.url, typ := e.typ, comment := e.comment }], st.2) := by
  have h := extref_types_roundtrip e.typ ht
  unfold refTypeBack at h
  simp only [refsInStep, refOut]
  split at h
  · rename_i cc heq
    simp only [Option.some.injEq] at h
    rw [heq]
    simp [h]
  · cases h

theorem refsInStep_id (st : List Protobom.ExtRef × List (Int × String)) (kv : Int × String) (hk : kv.1 ∈ [1, 2, 3, 4]) :
    refsInStep st (idOut kv) = (st.1, mapStore st.2 kv.1 kv.2) := by
  have h := identifier_types_roundtrip kv.1 hk
  have hk0 : kv.1 ≠ 0 := by
    simp only [List.mem_cons, List.not_mem_nil, or_false] at hk
    omega
  simp [refsInStep, idOut, h.1, h.2, hk0]

theorem fold_refs (refs : List Protobom.ExtRef) (st : List Protobom.ExtRef × List (Int × String))
    (h : ∀ e ∈ refs, e.typ ∈ spdxRefTypes) :
    (refs.map refOut).foldl refsInStep st =
      (st.1 ++ refs.map (fun e => { url := e.url, typ := e.typ, comment := e.comment }), st.2) := by
  induction refs generalizing st with
  | nil => simp
  | cons e es ih =>
    simp only [List.map_cons, List.foldl_cons]
    rw [refsInStep_ref st e (h e List.mem_cons_self), ih _ (fun e' he' => h e' (List.mem_cons_of_mem _ he'))]
    simp

theorem fold_ids (L : List (Int × String)) (st : List Protobom.ExtRef × List (Int × String))
    (hk : ∀ kv ∈ L, kv.1 ∈ [1, 2, 3, 4]) (hnd : (L.map (·.1)).Nodup) (hdis : ∀ kv ∈ L, ∀ a ∈ st.2, a.1 ≠ kv.1) :
    (L.map idOut).foldl refsInStep st = (st.1, st.2 ++ L) := by
  induction L generalizing st with
  | nil => simp
  | cons kv rest ih =>
    have hnd' : kv.1 ∉ rest.map (·.1) ∧ (rest.map (·.1)).Nodup :=
      List.nodup_cons.mp (by rw [List.map_cons] at hnd; exact hnd)
    have hnot : st.2.any (fun x => decide (x.1 = kv.1)) = false := by
      rw [List.any_eq_false]
      intro a ha
      simpa using hdis kv List.mem_cons_self a ha
    have hst : mapStore st.2 kv.1 kv.2 = st.2 ++ [kv] := by simp [mapStore, hnot]
    simp only [List.map_cons, List.foldl_cons]
    rw [refsInStep_id st kv (hk kv List.mem_cons_self), hst,
      ih _ (fun kv' h' => hk kv' (List.mem_cons_of_mem _ h')) hnd'.2]
    · simp
    · intro kv' hkv' a ha
      rcases List.mem_append.mp ha with h | h
      · exact hdis kv' (List.mem_cons_of_mem _ hkv') a h
      · simp only [List.mem_singleton] at h
        rw [h]
        intro e
        exact hnd'.1 (List.mem_map.mpr ⟨kv', hkv', e.symm⟩)

/-- references of the eight SPDX-expressible types and identifiers of the four kinds, any number
    of each: all come back — type, URL, comment; key, value -/
theorem refs_ids_roundtrip (refs : List Protobom.ExtRef) (ids : List (Int × String))
    (hr : ∀ e ∈ refs, e.typ ∈ spdxRefTypes) (hk : ∀ kv ∈ ids, kv.1 ∈ [1, 2, 3, 4]) (hnd : (ids.map (·.1)).Nodup) :
    refsIn (refs.map refOut ++ (sortedByKey ids).map idOut) =
      (refs.map (fun e => { url := e.url, typ := e.typ, comment := e.comment }), sortedByKey ids) := by
  rw [refsIn_eq_fold, List.foldl_append, fold_refs refs _ hr,
    fold_ids (sortedByKey ids) _ (sortedByKey_in _ _ hk) (sortedByKey_keys_nodup _ hnd) (by intro _ _ a ha; cases ha)]
  simp

end Protobom.Spdx

namespace Protobom.Str

theorem dropWhile_idem {α} (p : α → Bool) (l : List α) : (l.dropWhile p).dropWhile p = l.dropWhile p := by
  induction l with
  | nil => rfl
  | cons a as ih =>
    by_cases h : p a = true
    · simp [h, ih]
    · simp [h]

theorem dropWhile_head {α} (p : α → Bool) (l : List α) (a : α) (as : List α) (h : l.dropWhile p = a :: as) : p a = false := by
  induction l with
  | nil => simp at h
  | cons b bs ih =>
    by_cases hb : p b = true
    · simp only [List.dropWhile_cons, hb, if_true] at h; exact ih h
    · simp only [List.dropWhile_cons, hb] at h
      simp only [Bool.false_eq_true, if_false, List.cons.injEq] at h
      rw [← h.1]; simpa using hb

theorem dropWhile_suffix {α} (p : α → Bool) (l : List α) : ∃ w, l = w ++ l.dropWhile p := by
  induction l with
  | nil => exact ⟨[], rfl⟩
  | cons b bs ih =>
    by_cases hb : p b = true
    · obtain ⟨w, hw⟩ := ih
      refine ⟨b :: w, ?_⟩
      simp only [List.dropWhile_cons, hb, if_true, List.cons_append]
      rw [← hw]
    · exact ⟨[], by simp [hb]⟩

/-- trimming both ends is idempotent -/
theorem trimL_idem {α} (p : α → Bool) (l : List α) :
    let t := ((l.dropWhile p).reverse.dropWhile p).reverse
    ((t.dropWhile p).reverse.dropWhile p).reverse = t := by
  intro t
  have h1 : t.dropWhile p = t := by
    -- t is a prefix of m = l.dropWhile p
    obtain ⟨w, hw⟩ := dropWhile_suffix p (l.dropWhile p).reverse
    have hm : l.dropWhile p = t ++ w.reverse := by
      have := congrArg List.reverse hw
      simpa [t] using this
    cases ht : t with
    | nil => rfl
    | cons a as =>
      rw [ht] at hm
      have := dropWhile_head p l a (as ++ w.reverse) (by simpa using hm)
      simp [this]
  rw [h1]
  show ((((l.dropWhile p).reverse.dropWhile p).reverse).reverse.dropWhile p).reverse = _
  rw [List.reverse_reverse, dropWhile_idem]

set_option linter.deprecated false in
theorem toList_mk (l : List Char) : (String.mk l).toList = l := String.toList_ofList

theorem trimSpace_idem (s : String) : trimSpace (trimSpace s) = trimSpace s := by
  unfold trimSpace
  rw [toList_mk]
  exact congrArg _ (trimL_idem goIsSpace s.toList)

end Protobom.Str

namespace Protobom.Spdx
open Protobom Gen

/-! ### a second pass over a package node -/

/-- a package node written and read back (the tools-golang codec is the identity on the class) -/
def rtPkg (n : Node) : Node := packageToNode (packageOf n)

theorem rtPkg_attr (n : Node) (f : String) (k : Kind) (h : (f, k) ∈ Schema.nodeAttrs) :
    (rtPkg n).attr f = some (pkgAttr (packageOf n) f k) :=
  attr_of_schema_map _ _ _ f k h schema_keys_nodup

section
variable (n : Node)

theorem rtPkg_str (f : String) (h : (f, Kind.str) ∈ Schema.nodeAttrs) :
    Node.str (rtPkg n) f = (match pkgAttr (packageOf n) f .str with | .str s => s | _ => "") := by
  simp only [Node.str, Node.strAttr, rtPkg_attr n f .str h]
  cases pkgAttr (packageOf n) f .str <;> rfl

theorem rtPkg_strs (f : String) (h : (f, Kind.strs) ∈ Schema.nodeAttrs) :
    Node.strs (rtPkg n) f = (match pkgAttr (packageOf n) f .strs with | .strs s => s | _ => []) := by
  simp only [Node.strs, rtPkg_attr n f .strs h]
  cases pkgAttr (packageOf n) f .strs <;> rfl

theorem rtPkg_enums (f : String) (h : (f, Kind.enums) ∈ Schema.nodeAttrs) :
    Node.enums (rtPkg n) f = (match pkgAttr (packageOf n) f .enums with | .enums s => s | _ => []) := by
  simp only [Node.enums, rtPkg_attr n f .enums h]
  cases pkgAttr (packageOf n) f .enums <;> rfl

theorem rtPkg_refs (f : String) (h : (f, Kind.refs) ∈ Schema.nodeAttrs) :
    Node.refs (rtPkg n) f = (match pkgAttr (packageOf n) f .refs with | .refs s => s | _ => []) := by
  simp only [Node.refs, rtPkg_attr n f .refs h]
  cases pkgAttr (packageOf n) f .refs <;> rfl

theorem rtPkg_persons (f : String) (h : (f, Kind.persons) ∈ Schema.nodeAttrs) :
    Node.persons (rtPkg n) f = (match pkgAttr (packageOf n) f .persons with | .persons s => s | _ => []) := by
  simp only [Node.persons, rtPkg_attr n f .persons h]
  cases pkgAttr (packageOf n) f .persons <;> rfl

theorem rtPkg_imap (f : String) (h : (f, Kind.imap) ∈ Schema.nodeAttrs) :
    (rtPkg n).mapAttr f = (match pkgAttr (packageOf n) f .imap with | .imap s => s | _ => []) := by
  simp only [Node.mapAttr, rtPkg_attr n f .imap h]
  cases pkgAttr (packageOf n) f .imap <;> rfl

theorem rtPkg_date (f : String) (h : (f, Kind.date) ∈ Schema.nodeAttrs) :
    Node.dateSecs (rtPkg n) f = (match pkgAttr (packageOf n) f .date with | .date (some (s, _)) => some s | _ => none) := by
  simp only [Node.dateSecs, rtPkg_attr n f .date h]
  cases pkgAttr (packageOf n) f .date with
  | date d => cases d with
    | none => rfl
    | some x => rfl
  | _ => rfl

end


/-! ### table fixpoints -/

theorem lookupD_mem {κ β} [BEq κ] (tbl : List (κ × β)) (d : β) (k : κ) : lookupD tbl d k ∈ d :: tbl.map (·.2) := by
  unfold lookupD
  cases h : tbl.lookup k with
  | none => simp
  | some v =>
    simp only [Option.getD_some]
    apply List.mem_cons_of_mem
    induction tbl with
    | nil => simp at h
    | cons x xs ih =>
      obtain ⟨xk, xv⟩ := x
      simp only [List.lookup_cons] at h
      split at h
      · simp only [Option.some.injEq] at h; rw [← h]; simp
      · exact List.mem_cons_of_mem _ (ih h)

def purposeStrings : List String := "" :: Tables.spdxPurposeOut_default :: Tables.spdxPurposeOut.map (·.2)

theorem purposeOut_mem (ps : List Int) : purposeOut ps ∈ purposeStrings := by
  unfold purposeOut purposeStrings
  cases ps with
  | nil => simp
  | cons p rest =>
    simp only
    split
    · simp
    · split
      · simp
      · exact List.mem_cons_of_mem _ (lookupD_mem _ _ _)

theorem purpose_fix_table : ∀ s ∈ purposeStrings, purposeIn (purposeOut (purposeIn s)) = purposeIn s := by decide

theorem purpose_fix (ps : List Int) : purposeIn (purposeOut (purposeIn (purposeOut ps))) = purposeIn (purposeOut ps) :=
  purpose_fix_table _ (purposeOut_mem ps)


theorem filter_url_self (R : List Protobom.ExtRef) (h : ∀ e ∈ R, e.url ≠ "") :
    R.filter (fun x => decide (x.url ≠ "")) = R :=
  List.filter_eq_self.mpr (fun e he => by simpa using h e he)

/-- the references and identifiers a package node gets back are written and read back unchanged -/
theorem refs_second (R : List Protobom.ExtRef) (ids : List (Int × String))
    (hr : ∀ e ∈ R, e.typ ∈ spdxRefTypes ∧ e.url ≠ "" ∧ e.authority = "" ∧ e.hashes = [])
    (hk : ∀ kv ∈ ids, kv.1 ∈ [1, 2, 3, 4]) (hnd : (ids.map (·.1)).Nodup) :
    let X := List.map (fun e : Protobom.ExtRef => ({ category := refCategory e.typ, refType := refType e.typ, locator := e.url, comment := e.comment } : ExtRef))
        (List.filter (fun x => decide (x.url ≠ "")) R) ++
      List.map (fun kv : Int × String => ({ category := identCategory kv.fst, refType := identType kv.fst, locator := kv.snd } : ExtRef)) (sortedByKey ids)
    refsIn (List.map (fun e : Protobom.ExtRef => ({ category := refCategory e.typ, refType := refType e.typ, locator := e.url, comment := e.comment } : ExtRef))
        (List.filter (fun x => decide (x.url ≠ "")) (refsIn X).fst) ++
      List.map (fun kv : Int × String => ({ category := identCategory kv.fst, refType := identType kv.fst, locator := kv.snd } : ExtRef)) (sortedByKey (refsIn X).snd)) =
    refsIn X := by
  intro X
  have hX : refsIn X = (R.map (fun e => { url := e.url, typ := e.typ, comment := e.comment }), sortedByKey ids) := by
    simp only [X]
    rw [filter_url_self R (fun e he => (hr e he).2.1)]
    exact refs_ids_roundtrip R ids (fun e he => (hr e he).1) hk hnd
  rw [hX]
  simp only
  rw [filter_url_self _ (by
    intro e he
    obtain ⟨e0, he0, rfl⟩ := List.mem_map.mp he
    exact (hr e0 he0).2.1)]
  have := refs_ids_roundtrip (R.map (fun e => ({ url := e.url, typ := e.typ, comment := e.comment } : Protobom.ExtRef))) (sortedByKey ids)
    (by
      intro e he
      obtain ⟨e0, he0, rfl⟩ := List.mem_map.mp he
      exact (hr e0 he0).1)
    (sortedByKey_in _ _ hk) (sortedByKey_keys_nodup _ hnd)
  have hcc : ((fun e : Protobom.ExtRef => ({ url := e.url, typ := e.typ, comment := e.comment } : Protobom.ExtRef)) ∘
      fun e : Protobom.ExtRef => ({ url := e.url, typ := e.typ, comment := e.comment } : Protobom.ExtRef)) =
      fun e : Protobom.ExtRef => ({ url := e.url, typ := e.typ, comment := e.comment } : Protobom.ExtRef) := funext (fun _ => rfl)
  rw [sortedByKey_idem _ hnd] at this
  simp only [List.map_map, hcc] at this
  rw [sortedByKey_idem _ hnd]
  simp only [List.map_map]
  exact this

theorem date_fix (d : Option Int) :
    (match dateVal d with | Val.date (some (s, _)) => some s | _ => none) = d := by
  cases d <;> rfl

theorem dl_fix (x : String) :
    (if (if x = "" then "NOASSERTION" else x) = "" then "NOASSERTION" else if x = "" then "NOASSERTION" else x) =
      if x = "" then "NOASSERTION" else x := by
  by_cases h : x = "" <;> simp [h]

theorem lc_fix (x : String) :
    (if (if x = "NOASSERTION" then "" else x) = "NOASSERTION" then "" else if x = "NOASSERTION" then "" else x) =
      if x = "NOASSERTION" then "" else x := by
  by_cases h : x = "NOASSERTION" <;> simp [h]

def agentOf (p : Person) : Agent := { name := clientString p, typ := clientOrg p }

theorem supplier_fix (ps : List Person) :
    supplierPersons ((supplierPersons (ps.head?.map agentOf)).head?.map agentOf) = supplierPersons (ps.head?.map agentOf) := by
  cases ps with
  | nil => rfl
  | cons p rest =>
    simp only [List.head?_cons, Option.map_some, supplierPersons, agentOf]
    generalize clientString p = nm
    generalize clientOrg p = org
    by_cases h : nm = "NOASSERTION"
    · simp [h]
    · by_cases ho : org = "Organization" <;> simp [h, ho, agentPerson, agentOf, clientString, clientOrg]

theorem originator_fix (ps : List Person) :
    originatorPersons ((originatorPersons (ps.head?.map agentOf)).head?.map agentOf) = originatorPersons (ps.head?.map agentOf) := by
  cases ps with
  | nil => rfl
  | cons p rest =>
    simp only [List.head?_cons, Option.map_some, originatorPersons, agentOf]
    generalize clientString p = nm
    generalize clientOrg p = org
    by_cases h : nm = "NOASSERTION" ∨ nm = ""
    · simp [h]
    · by_cases ho : org = "Organization" <;> simp [h, ho, agentPerson, agentOf, clientString, clientOrg]

/-- the nodes of the SPDX package class (collections part) -/
structure SpdxPkgNode (n : Node) : Prop where
  hk : ∀ kv ∈ n.hashes, kv.1 ∈ spdxHashes
  hnd : (n.hashes.map (·.1)).Nodup
  refs : ∀ e ∈ Node.refs n "ExternalReferences", e.typ ∈ spdxRefTypes ∧ e.url ≠ "" ∧ e.authority = "" ∧ e.hashes = []
  ik : ∀ kv ∈ n.identifiers, kv.1 ∈ [1, 2, 3, 4]
  ind : (n.identifiers.map (·.1)).Nodup

theorem pkgAttr_congr (p1 p : Package)
    (h1 : p1.name = p.name) (h2 : p1.version = p.version) (h3 : p1.fileName = p.fileName) (h4 : p1.home = p.home)
    (h5 : p1.download = p.download) (h6 : p1.licenseComments = p.licenseComments) (h7 : p1.copyright = p.copyright)
    (h8 : p1.sourceInfo = p.sourceInfo) (h9 : p1.comment = p.comment) (h10 : p1.summary = p.summary)
    (h11 : p1.description = p.description) (h12 : p1.attribution = p.attribution)
    (h13 : purposeIn p1.purpose = purposeIn p.purpose)
    (h14 : (if p1.licenseConcluded = "NOASSERTION" then "" else p1.licenseConcluded) =
      (if p.licenseConcluded = "NOASSERTION" then "" else p.licenseConcluded))
    (h15 : hashesOfChecksums p1.checksums = hashesOfChecksums p.checksums)
    (h16 : refsIn p1.extRefs = refsIn p.extRefs)
    (h17 : p1.validUntil = p.validUntil) (h18 : p1.release = p.release) (h19 : p1.built = p.built)
    (h20 : supplierPersons p1.supplier = supplierPersons p.supplier)
    (h21 : originatorPersons p1.originator = originatorPersons p.originator) :
    ∀ f k, pkgAttr p1 f k = pkgAttr p f k := by
  intro f k
  simp only [pkgAttr, h1, h2, h3, h4, h5, h6, h7, h8, h9, h10, h11, h12, h13, h14, h15, h16, h17, h18, h19, h20, h21]

theorem packageToNode_congr (p1 p : Package) (hid : p1.id = p.id) (h : ∀ f k, pkgAttr p1 f k = pkgAttr p f k) :
    packageToNode p1 = packageToNode p := by
  unfold packageToNode
  rw [hid]
  congr 1
  apply List.map_congr_left
  intro fk _
  exact h fk.1 fk.2

theorem second_pass_package (n : Node) (c : SpdxPkgNode n) : rtPkg (rtPkg n) = rtPkg n := by
  have hName := rtPkg_str n "Name" (by simp [Schema.nodeAttrs])
  have hVer := rtPkg_str n "Version" (by simp [Schema.nodeAttrs])
  have hFile := rtPkg_str n "FileName" (by simp [Schema.nodeAttrs])
  have hHome := rtPkg_str n "UrlHome" (by simp [Schema.nodeAttrs])
  have hDl := rtPkg_str n "UrlDownload" (by simp [Schema.nodeAttrs])
  have hLc := rtPkg_str n "LicenseComments" (by simp [Schema.nodeAttrs])
  have hCp := rtPkg_str n "Copyright" (by simp [Schema.nodeAttrs])
  have hSi := rtPkg_str n "SourceInfo" (by simp [Schema.nodeAttrs])
  have hCm := rtPkg_str n "Comment" (by simp [Schema.nodeAttrs])
  have hSu := rtPkg_str n "Summary" (by simp [Schema.nodeAttrs])
  have hDe := rtPkg_str n "Description" (by simp [Schema.nodeAttrs])
  have hLi := rtPkg_str n "LicenseConcluded" (by simp [Schema.nodeAttrs])
  have hAt := rtPkg_strs n "Attribution" (by simp [Schema.nodeAttrs])
  have hPu := rtPkg_enums n "PrimaryPurpose" (by simp [Schema.nodeAttrs])
  have hRe := rtPkg_refs n "ExternalReferences" (by simp [Schema.nodeAttrs])
  have hSp := rtPkg_persons n "Suppliers" (by simp [Schema.nodeAttrs])
  have hOr := rtPkg_persons n "Originators" (by simp [Schema.nodeAttrs])
  have hId : (rtPkg n).identifiers = _ := rtPkg_imap n "Identifiers" (by simp [Schema.nodeAttrs])
  have hHs : (rtPkg n).hashes = _ := rtPkg_imap n "Hashes" (by simp [Schema.nodeAttrs])
  have hD1 := rtPkg_date n "ReleaseDate" (by simp [Schema.nodeAttrs])
  have hD2 := rtPkg_date n "BuildDate" (by simp [Schema.nodeAttrs])
  have hD3 := rtPkg_date n "ValidUntilDate" (by simp [Schema.nodeAttrs])
  simp only [pkgAttr, String.reduceEq, if_false, if_true] at hName hVer hFile hHome hDl hLc hCp hSi hCm hSu hDe hLi hAt hPu hRe hSp hOr hId hHs hD1 hD2 hD3
  have hattrs : ∀ f k, pkgAttr (packageOf (rtPkg n)) f k = pkgAttr (packageOf n) f k := by
    apply pkgAttr_congr
    · exact hName
    · exact hVer
    · exact hFile
    · exact hHome
    · show (if Node.str (rtPkg n) "UrlDownload" = "" then "NOASSERTION" else Node.str (rtPkg n) "UrlDownload") = _
      rw [hDl]
      exact dl_fix _
    · exact hLc
    · show Str.trimSpace (Node.str (rtPkg n) "Copyright") = _
      rw [hCp]
      exact Str.trimSpace_idem _
    · exact hSi
    · exact hCm
    · exact hSu
    · exact hDe
    · exact hAt
    · show purposeIn (purposeOut (Node.enums (rtPkg n) "PrimaryPurpose")) = _
      rw [hPu]
      exact purpose_fix _
    · show (if Node.str (rtPkg n) "LicenseConcluded" = "NOASSERTION" then "" else Node.str (rtPkg n) "LicenseConcluded") = _
      rw [hLi]
      exact lc_fix _
    · show hashesOfChecksums (checksumsOf (rtPkg n)) = hashesOfChecksums (checksumsOf n)
      have h1 := hashes_roundtrip n c.hk c.hnd
      have hh : (rtPkg n).hashes = sortedByKey n.hashes := by rw [hHs]; exact h1
      rw [hashes_roundtrip (rtPkg n) (by rw [hh]; exact sortedByKey_in _ _ c.hk)
        (by rw [hh]; exact sortedByKey_keys_nodup _ c.hnd), hh, sortedByKey_idem _ c.hnd, h1]
    · show refsIn (List.map _ (List.filter _ (Node.refs (rtPkg n) "ExternalReferences")) ++
        List.map _ (sortedByKey (rtPkg n).identifiers)) = _
      rw [hRe, hId]
      exact refs_second (Node.refs n "ExternalReferences") n.identifiers c.refs c.ik c.ind
    · show Node.dateSecs (rtPkg n) "ValidUntilDate" = _
      rw [hD3]; exact date_fix _
    · show Node.dateSecs (rtPkg n) "ReleaseDate" = _
      rw [hD1]; exact date_fix _
    · show Node.dateSecs (rtPkg n) "BuildDate" = _
      rw [hD2]; exact date_fix _
    · show supplierPersons ((Node.persons (rtPkg n) "Suppliers").head?.map agentOf) = _
      rw [hSp]
      exact supplier_fix _
    · show originatorPersons ((Node.persons (rtPkg n) "Originators").head?.map agentOf) = _
      rw [hOr]
      exact originator_fix _
  exact packageToNode_congr _ _ rfl hattrs

end Protobom.Spdx

namespace Protobom.Spdx
open Protobom Gen

/-! ### a second pass over a file node -/

def rtFile (n : Node) : Node := fileToNode (fileOf n)

theorem rtFile_attr (n : Node) (f : String) (k : Kind) (h : (f, k) ∈ Schema.nodeAttrs) :
    (rtFile n).attr f = some (fileAttr (fileOf n) f k) :=
  attr_of_schema_map _ _ _ f k h schema_keys_nodup

section
variable (n : Node)

theorem rtFile_str (f : String) (h : (f, Kind.str) ∈ Schema.nodeAttrs) :
    Node.str (rtFile n) f = (match fileAttr (fileOf n) f .str with | .str s => s | _ => "") := by
  simp only [Node.str, Node.strAttr, rtFile_attr n f .str h]
  cases fileAttr (fileOf n) f .str <;> rfl

theorem rtFile_strs (f : String) (h : (f, Kind.strs) ∈ Schema.nodeAttrs) :
    Node.strs (rtFile n) f = (match fileAttr (fileOf n) f .strs with | .strs s => s | _ => []) := by
  simp only [Node.strs, rtFile_attr n f .strs h]
  cases fileAttr (fileOf n) f .strs <;> rfl

theorem rtFile_imap (f : String) (h : (f, Kind.imap) ∈ Schema.nodeAttrs) :
    (rtFile n).mapAttr f = (match fileAttr (fileOf n) f .imap with | .imap s => s | _ => []) := by
  simp only [Node.mapAttr, rtFile_attr n f .imap h]
  cases fileAttr (fileOf n) f .imap <;> rfl

end

theorem fileAttr_congr (f1 f : File)
    (h1 : f1.name = f.name) (h2 : f1.licenseInfo = f.licenseInfo) (h3 : f1.licenseConcluded = f.licenseConcluded)
    (h4 : f1.licenseComments = f.licenseComments) (h5 : f1.copyright = f.copyright) (h6 : f1.comment = f.comment)
    (h7 : f1.fileTypes = f.fileTypes) (h8 : hashesOfChecksums f1.checksums = hashesOfChecksums f.checksums) :
    ∀ g k, fileAttr f1 g k = fileAttr f g k := by
  intro g k
  simp only [fileAttr, h1, h2, h3, h4, h5, h6, h7, h8]

theorem fileToNode_congr (f1 f : File) (hid : f1.id = f.id) (h : ∀ g k, fileAttr f1 g k = fileAttr f g k) :
    fileToNode f1 = fileToNode f := by
  unfold fileToNode
  rw [hid]
  congr 1
  apply List.map_congr_left
  intro fk _
  exact h fk.1 fk.2

theorem none_fix (x : String) : fileCopyright (fileCopyright x) = fileCopyright x := by
  unfold fileCopyright
  simp only
  by_cases h : Str.trimSpace x = ""
  · have : Str.trimSpace "NONE" = "NONE" := by decide
    simp [h, this]
  · simp [h, Str.trimSpace_idem]

/-- a file node that came back is a fixpoint of write-then-read (hashes over the shared algorithms) -/
theorem second_pass_file (n : Node) (hk : ∀ kv ∈ n.hashes, kv.1 ∈ spdxHashes) (hnd : (n.hashes.map (·.1)).Nodup) :
    rtFile (rtFile n) = rtFile n := by
  have hName := rtFile_str n "Name" (by simp [Schema.nodeAttrs])
  have hLi := rtFile_str n "LicenseConcluded" (by simp [Schema.nodeAttrs])
  have hLc := rtFile_str n "LicenseComments" (by simp [Schema.nodeAttrs])
  have hCp := rtFile_str n "Copyright" (by simp [Schema.nodeAttrs])
  have hCm := rtFile_str n "Comment" (by simp [Schema.nodeAttrs])
  have hFt := rtFile_strs n "FileTypes" (by simp [Schema.nodeAttrs])
  have hAt := rtFile_strs n "Attribution" (by simp [Schema.nodeAttrs])
  have hHs : (rtFile n).hashes = _ := rtFile_imap n "Hashes" (by simp [Schema.nodeAttrs])
  simp only [fileAttr, String.reduceEq, if_false, if_true] at hName hLi hLc hCp hCm hFt hAt hHs
  have hattrs : ∀ g k, fileAttr (fileOf (rtFile n)) g k = fileAttr (fileOf n) g k := by
    have f1 : ∀ m : Node, (fileOf m).name = Node.str m "Name" := fun _ => rfl
    have f2 : ∀ m : Node, (fileOf m).licenseInfo = [] := fun _ => rfl
    have f3 : ∀ m : Node, (fileOf m).licenseConcluded = Node.str m "LicenseConcluded" := fun _ => rfl
    have f4 : ∀ m : Node, (fileOf m).licenseComments = Node.str m "LicenseComments" := fun _ => rfl
    have f5 : ∀ m : Node, (fileOf m).copyright = fileCopyright (Node.str m "Copyright") := fun _ => rfl
    have f6 : ∀ m : Node, (fileOf m).comment = Node.str m "Comment" := fun _ => rfl
    have f7 : ∀ m : Node, (fileOf m).fileTypes = Node.strs m "FileTypes" := fun _ => rfl
    have f8 : ∀ m : Node, (fileOf m).checksums = checksumsOf m := fun _ => rfl
    apply fileAttr_congr
    · rw [f1 (rtFile n)]; exact hName
    · rw [f2, f2]
    · rw [f3 (rtFile n)]; exact hLi
    · rw [f4 (rtFile n)]; exact hLc
    · rw [f5 (rtFile n), hCp, f5 n]; exact none_fix _
    · rw [f6 (rtFile n)]; exact hCm
    · rw [f7 (rtFile n)]; exact hFt
    · rw [f8, f8]
      rw [f8] at hHs
      have h1 := hashes_roundtrip n hk hnd
      have hh : (rtFile n).hashes = sortedByKey n.hashes := by rw [hHs]; exact h1
      rw [hashes_roundtrip (rtFile n) (by rw [hh]; exact sortedByKey_in _ _ hk)
        (by rw [hh]; exact sortedByKey_keys_nodup _ hnd), hh, sortedByKey_idem _ hnd, h1]
  have fid : ∀ m : Node, (fileOf m).id = m.id := fun _ => rfl
  exact fileToNode_congr _ _ (by rw [fid, fid]; rfl) hattrs

end Protobom.Spdx
