/- The store: what the entry of an identifier can be in every state of a store, crashed or not. -/
import Protobom.Model.Store

namespace Protobom.Store

theorem fput_same (fs : Files) (n : String) (b : Bytes) : fput fs n b n = some b := by simp [fput]
theorem fput_other (fs : Files) (n m : String) (b : Bytes) (h : m ≠ n) : fput fs n b m = fs m := by simp [fput, h]
theorem fdel_same (fs : Files) (n : String) : fdel fs n n = none := by simp [fdel]
theorem fdel_other (fs : Files) (n m : String) (h : m ≠ n) : fdel fs n m = fs m := by simp [fdel, h]

/-- a write to `tmp` only changes `tmp` -/
theorem apply_write_other (fs : Files) (n m : String) (b : Bytes) (h : m ≠ n) : apply fs (.write n b) m = fs m :=
  fput_other _ _ _ _ h

/-- the states of a store, crashed anywhere: every file other than the temporary one and the entry
    is untouched; the entry is what it was, or the complete new encoding -/
theorem crash_states_spec (C : Codec) (N : Naming) (fs : Files) (d : SDoc) (tmp : String)
    (htmp : tmp ≠ N.entry d.id) (s : Files) (hs : s ∈ crashStates fs (storeOps C N d tmp)) :
    (∀ m, m ≠ tmp → m ≠ N.entry d.id → s m = fs m) ∧
    (s (N.entry d.id) = fs (N.entry d.id) ∨ s (N.entry d.id) = some (C.enc d)) := by
  have hne : N.entry d.id ≠ tmp := fun e => htmp e.symm
  simp only [crashStates, storeOps, List.mem_cons, List.mem_append, List.mem_map, List.mem_range,
    List.not_mem_nil, or_false, List.nil_append, List.append_nil] at hs
  -- the state after the complete write
  have hw : ∀ m, m ≠ tmp → apply (apply fs (.create tmp)) (.write tmp (C.enc d)) m = fs m := by
    intro m hm
    rw [apply_write_other _ _ _ _ hm]
    exact fput_other _ _ _ _ hm
  have hwt : apply (apply fs (.create tmp)) (.write tmp (C.enc d)) tmp = some (C.enc d) := by
    simp [apply, fput]
  rcases hs with rfl | (rfl | ⟨k, _, rfl⟩) | rfl | rfl | rfl
  · exact ⟨fun _ _ _ => rfl, Or.inl rfl⟩
  · exact ⟨fun m hm _ => fput_other _ _ _ _ hm, Or.inl (fput_other _ _ _ _ hne)⟩
  · refine ⟨fun m hm _ => ?_, Or.inl ?_⟩
    · rw [apply_write_other _ _ _ _ hm]; exact fput_other _ _ _ _ hm
    · rw [apply_write_other _ _ _ _ hne]; exact fput_other _ _ _ _ hne
  · exact ⟨fun m hm _ => hw m hm, Or.inl (hw _ hne)⟩
  · exact ⟨fun m hm _ => hw m hm, Or.inl (hw _ hne)⟩
  · -- renamed
    simp only [apply] at hwt ⊢
    simp only [apply] at hw
    refine ⟨fun m hm hme => ?_, Or.inr ?_⟩
    · simp only [hwt]
      rw [fput_other _ _ _ _ hme, fdel_other _ _ _ hm]
      exact hw m hm
    · simp only [hwt]
      exact fput_same _ _ _

/-- the final state of a store is one of its crash states -/
theorem final_mem_crashStates (fs : Files) (ops : List FsOp) : ops.foldl apply fs ∈ crashStates fs ops := by
  induction ops generalizing fs with
  | nil => simp [crashStates]
  | cons op ops ih =>
    simp only [crashStates, List.foldl_cons, List.mem_cons, List.mem_append]
    exact Or.inr (ih (apply fs op))

theorem retrieve_congr (C : Codec) (N : Naming) (s fs : Files) (id : String)
    (h : s (N.entry id) = fs (N.entry id)) : retrieve C N s id = retrieve C N fs id := by
  simp only [retrieve, h]

theorem retrieve_of_entry (C : Codec) (N : Naming) (s : Files) (d : SDoc) (hid : d.id ≠ "")
    (h : s (N.entry d.id) = some (C.enc d)) : retrieve C N s d.id = .ok d := by
  simp [retrieve, hid, h, C.rt]

end Protobom.Store
