/- Refinement lemmas for `Union`, `Add`: node identifiers, roots and the edge relation. -/
import Protobom.Proofs.ListLemmas

namespace Protobom

@[simp] theorem update_id (n m : Node) : (n.update m).id = n.id := rfl
@[simp] theorem augment_id (n m : Node) : (n.augment m).id = n.id := rfl
@[simp] theorem update_typ (n m : Node) : (n.update m).typ = n.typ := rfl
@[simp] theorem augment_typ (n m : Node) : (n.augment m).typ = n.typ := rfl

/-! ### node loop -/

theorem mergeNodes_fst_ids (f : Node → Node → Node) (hf : ∀ n m, (f n m).id = n.id)
    (ids0 : List String) (st : List Node × List Node) (ns2 : List Node) :
    (mergeNodes f ids0 st ns2).1.map (·.id) = st.1.map (·.id) := by
  unfold mergeNodes
  induction ns2 generalizing st with
  | nil => rfl
  | cons n ns ih =>
    simp only [List.foldl_cons]
    rw [ih]
    split
    · exact map_modifyLast _ _ _ (fun x => hf x n) _
    · rfl

theorem mergeNodes_snd (f : Node → Node → Node) (ids0 : List String) (st : List Node × List Node)
    (ns2 : List Node) :
    (mergeNodes f ids0 st ns2).2 = st.2 ++ ns2.filter (·.id ∉ ids0) := by
  unfold mergeNodes
  induction ns2 generalizing st with
  | nil => simp
  | cons n ns ih =>
    simp only [List.foldl_cons]
    rw [ih]
    by_cases h : n.id ∈ ids0
    · simp [h]
    · simp [h]

theorem unionNodes_ids (base ns2 : List Node) :
    (unionNodes base ns2).map (·.id) =
      base.map (·.id) ++ (ns2.filter (·.id ∉ base.map (·.id))).map (·.id) := by
  unfold unionNodes
  simp only [List.map_append]
  rw [mergeNodes_fst_ids _ update_id, mergeNodes_snd]
  simp

theorem addNodes_ids (base ns2 : List Node) :
    (addNodes base ns2).map (·.id) =
      base.map (·.id) ++ (ns2.filter (·.id ∉ base.map (·.id))).map (·.id) := by
  unfold addNodes
  simp only [List.map_append]
  rw [mergeNodes_fst_ids _ augment_id, mergeNodes_snd]
  simp

theorem mem_merged_ids (base ns2 : List Node) (x : String) :
    x ∈ base.map (·.id) ++ (ns2.filter (·.id ∉ base.map (·.id))).map (·.id) ↔
      x ∈ base.map (·.id) ∨ x ∈ ns2.map (·.id) := by
  simp only [List.mem_append, List.mem_map, List.mem_filter, decide_eq_true_eq]
  constructor
  · rintro (h | ⟨n, ⟨hn, _⟩, rfl⟩)
    · exact Or.inl h
    · exact Or.inr ⟨n, hn, rfl⟩
  · rintro (h | ⟨n, hn, rfl⟩)
    · exact Or.inl h
    · by_cases hin : ∃ a ∈ base, a.id = n.id
      · exact Or.inl hin
      · exact Or.inr ⟨n, ⟨hn, hin⟩, rfl⟩

theorem merged_ids_nodup (base ns2 : List Node) (h1 : (base.map (·.id)).Nodup)
    (h2 : (ns2.map (·.id)).Nodup) :
    (base.map (·.id) ++ (ns2.filter (·.id ∉ base.map (·.id))).map (·.id)).Nodup := by
  rw [List.nodup_append]
  refine ⟨h1, ?_, ?_⟩
  · exact (List.Nodup.sublist (List.Sublist.map _ List.filter_sublist) h2)
  · intro a ha b hb hab
    subst hab
    simp only [List.mem_map, List.mem_filter, decide_eq_true_eq] at hb
    obtain ⟨n, ⟨_, hn⟩, rfl⟩ := hb
    exact hn (by simpa using ha)

/-! ### edge loops -/

theorem hasEdgeL_single (e : Edge) (s t d) :
    HasEdgeL [e] s t d ↔ ((s, t) = e.key ∧ d ∈ e.tos) := by
  unfold HasEdgeL Edge.key
  simp only [List.mem_singleton, exists_eq_left, Prod.mk.injEq]
  constructor
  · rintro ⟨h1, h2, h3⟩; exact ⟨⟨h1.symm, h2.symm⟩, h3⟩
  · rintro ⟨⟨h1, h2⟩, h3⟩; exact ⟨h1.symm, h2.symm, h3⟩

theorem any_key_iff (acc : List Edge) (k : Key) :
    acc.any (fun e => decide (e.key = k)) = true ↔ ∃ e ∈ acc, e.key = k := by
  simp [List.any_eq_true]

theorem unionEdgeStep_rel (acc : List Edge) (e2 : Edge) (s t d) :
    HasEdgeL (unionEdgeStep acc e2) s t d ↔ HasEdgeL acc s t d ∨ HasEdgeL [e2] s t d := by
  unfold unionEdgeStep
  split
  · rename_i h
    rw [hasEdge_modifyFirst e2.key (fun ts => addNew ts e2.tos) e2.tos
      (fun ts d => mem_addNew ts e2.tos d) acc ((any_key_iff acc e2.key).mp h), hasEdgeL_single]
  · exact hasEdgeL_append acc [e2] s t d

theorem hasEdgeL_cons (e : Edge) (es : List Edge) (s t d) :
    HasEdgeL (e :: es) s t d ↔ HasEdgeL [e] s t d ∨ HasEdgeL es s t d :=
  hasEdgeL_append [e] es s t d

theorem unionEdges_rel (base es2 : List Edge) (s t d) :
    HasEdgeL (unionEdges base es2) s t d ↔ HasEdgeL base s t d ∨ HasEdgeL es2 s t d := by
  unfold unionEdges
  induction es2 generalizing base with
  | nil => simp [HasEdgeL]
  | cons e es ih =>
    simp only [List.foldl_cons]
    rw [ih, unionEdgeStep_rel, hasEdgeL_cons e es, or_assoc]

theorem intersectEdgeStep_rel (acc : List Edge) (e2 : Edge) (s t d) :
    HasEdgeL (intersectEdgeStep acc e2) s t d ↔ HasEdgeL acc s t d ∨ HasEdgeL [e2] s t d := by
  unfold intersectEdgeStep
  split
  · rename_i h
    rw [hasEdge_modifyFirst e2.key (fun ts => ts ++ e2.tos.filter (· ∉ ts)) e2.tos
      (fun ts d => by
        simp only [List.mem_append, List.mem_filter, decide_eq_true_eq]
        constructor
        · rintro (h | ⟨h, _⟩)
          · exact Or.inl h
          · exact Or.inr h
        · rintro (h | h)
          · exact Or.inl h
          · by_cases hd : d ∈ ts
            · exact Or.inl hd
            · exact Or.inr ⟨h, hd⟩)
      acc ((any_key_iff acc e2.key).mp h), hasEdgeL_single]
  · exact hasEdgeL_append acc [e2] s t d

theorem intersectEdges_rel (base es2 : List Edge) (s t d) :
    HasEdgeL (intersectEdges base es2) s t d ↔ HasEdgeL base s t d ∨ HasEdgeL es2 s t d := by
  unfold intersectEdges
  induction es2 generalizing base with
  | nil => simp [HasEdgeL]
  | cons e es ih =>
    simp only [List.foldl_cons]
    rw [ih, intersectEdgeStep_rel, hasEdgeL_cons e es, or_assoc]

/-- invariant of the `Add` edge loop: the first component keeps the keys of `base` -/
theorem addEdges_fold_rel (keys0 : List Key) (st : List Edge × List Edge) (es2 : List Edge)
    (hk : st.1.map Edge.key = keys0) (s t d) :
    (let r := es2.foldl (addEdgeStep keys0) st
     HasEdgeL (r.1 ++ r.2) s t d) ↔ HasEdgeL (st.1 ++ st.2) s t d ∨ HasEdgeL es2 s t d := by
  induction es2 generalizing st with
  | nil => simp [HasEdgeL]
  | cons e es ih =>
    simp only [List.foldl_cons]
    have hstep : (addEdgeStep keys0 st e).1.map Edge.key = keys0 := by
      unfold addEdgeStep
      split
      · simp only; rw [keys_modifyFirst]; exact hk
      · exact hk
    rw [ih _ hstep, hasEdgeL_cons e es, ← or_assoc]
    apply or_congr_left
    unfold addEdgeStep
    split
    · rename_i hin
      simp only [hasEdgeL_append]
      have hex : ∃ x ∈ st.1, x.key = e.key := by
        rw [← hk] at hin
        simpa using hin
      rw [hasEdge_modifyFirst e.key (fun ts => ts ++ e.tos) e.tos (fun ts d => by simp) st.1 hex,
        hasEdgeL_single]
      constructor
      · rintro ((h | h) | h)
        · exact Or.inl (Or.inl h)
        · exact Or.inr h
        · exact Or.inl (Or.inr h)
      · rintro ((h | h) | h)
        · exact Or.inl (Or.inl h)
        · exact Or.inr h
        · exact Or.inl (Or.inr h)
    · simp only [hasEdgeL_append, or_assoc]

theorem addEdges_rel (base es2 : List Edge) (s t d) :
    HasEdgeL (addEdges base es2) s t d ↔ HasEdgeL base s t d ∨ HasEdgeL es2 s t d := by
  have := addEdges_fold_rel (base.map Edge.key) (base, []) es2 rfl s t d
  simpa [addEdges] using this

/-! ### the refinement theorems -/

theorem mem_roots_merge (r1 r2 : List String) (x : String) :
    x ∈ r1 ++ r2.filter (· ∉ r1) ↔ x ∈ r1 ∨ x ∈ r2 := by
  simp only [List.mem_append, List.mem_filter, decide_eq_true_eq]
  constructor
  · rintro (h | ⟨h, _⟩)
    · exact Or.inl h
    · exact Or.inr h
  · rintro (h | h)
    · exact Or.inl h
    · by_cases hx : x ∈ r1
      · exact Or.inl hx
      · exact Or.inr ⟨h, hx⟩

theorem union_ids_eq (a b : NodeList) :
    (a.union b).ids = a.ids ++ (b.nodes.filter (·.id ∉ a.ids)).map (·.id) := by
  simp only [NodeList.union, NodeList.ids, NodeList.cleanEdges]
  exact unionNodes_ids a.nodes b.nodes

theorem union_ids (a b : NodeList) (x : String) : x ∈ (a.union b).ids ↔ x ∈ a.ids ∨ x ∈ b.ids := by
  rw [union_ids_eq]; exact mem_merged_ids a.nodes b.nodes x

theorem union_roots (a b : NodeList) (x : String) :
    x ∈ (a.union b).roots ↔ x ∈ a.roots ∨ x ∈ b.roots := by
  simp only [NodeList.union]; exact mem_roots_merge _ _ x

theorem union_edges (a b : NodeList) (s t d) :
    (a.union b).HasEdge s t d ↔
      (a.HasEdge s t d ∨ b.HasEdge s t d) ∧ s ∈ (a.union b).ids ∧ d ∈ (a.union b).ids := by
  have h := cleanEdges_rel ({ nodes := unionNodes a.nodes b.nodes, edges := unionEdges a.edges b.edges,
                              roots := a.roots } : NodeList) s t d
  simp only [NodeList.HasEdge] at h ⊢
  simp only [NodeList.union, NodeList.ids, NodeList.cleanEdges] at h ⊢
  rw [h, unionEdges_rel]

theorem add_ids_eq (a b : NodeList) :
    (a.add b).ids = a.ids ++ (b.nodes.filter (·.id ∉ a.ids)).map (·.id) := by
  simp only [NodeList.add, NodeList.ids, NodeList.cleanEdges]
  exact addNodes_ids a.nodes b.nodes

theorem add_ids (a b : NodeList) (x : String) : x ∈ (a.add b).ids ↔ x ∈ a.ids ∨ x ∈ b.ids := by
  rw [add_ids_eq]; exact mem_merged_ids a.nodes b.nodes x

theorem add_roots (a b : NodeList) (x : String) :
    x ∈ (a.add b).roots ↔ x ∈ a.roots ∨ x ∈ b.roots := by
  simp only [NodeList.add, NodeList.cleanEdges]; exact mem_roots_merge _ _ x

theorem add_edges (a b : NodeList) (s t d) :
    (a.add b).HasEdge s t d ↔
      (a.HasEdge s t d ∨ b.HasEdge s t d) ∧ s ∈ (a.add b).ids ∧ d ∈ (a.add b).ids := by
  have h := cleanEdges_rel ({ nodes := addNodes a.nodes b.nodes, edges := addEdges a.edges b.edges,
                              roots := a.roots ++ b.roots.filter (· ∉ a.roots) } : NodeList) s t d
  simp only [NodeList.HasEdge] at h ⊢
  simp only [NodeList.add, NodeList.ids, NodeList.cleanEdges] at h ⊢
  rw [h, addEdges_rel]

end Protobom
