/- Well-formedness and normal-form preservation for every graph-editing operation. -/
import Protobom.Proofs.Intersect

namespace Protobom

/-- all edges of `es` have their source and targets in `ids` -/
def EdgesIn (ids : List String) (es : List Edge) : Prop :=
  ∀ e ∈ es, e.src ∈ ids ∧ ∀ d ∈ e.tos, d ∈ ids

theorem EdgesIn.mono {ids ids' : List String} {es : List Edge} (h : EdgesIn ids es)
    (hsub : ∀ x ∈ ids, x ∈ ids') : EdgesIn ids' es :=
  fun e he => ⟨hsub _ (h e he).1, fun d hd => hsub _ ((h e he).2 d hd)⟩

theorem EdgesIn.append {ids : List String} {es fs : List Edge} (h1 : EdgesIn ids es) (h2 : EdgesIn ids fs) :
    EdgesIn ids (es ++ fs) := fun e he => by
  rcases List.mem_append.mp he with h | h
  · exact h1 e h
  · exact h2 e h

theorem EdgesIn.modifyFirst {ids : List String} {es : List Edge} (h : EdgesIn ids es) (p : Edge → Bool)
    (g : Edge → List String) (hg : ∀ e ∈ es, ∀ d ∈ g e, d ∈ ids) :
    EdgesIn ids (modifyFirst p (fun e => { e with tos := g e }) es) := fun e he => by
  rcases mem_modifyFirst p _ es e he with h1 | ⟨x, hx, _, rfl⟩
  · exact h e h1
  · exact ⟨(h x hx).1, hg x hx⟩

theorem wf_of_parts (nl : NodeList) (hnd : nl.ids.Nodup) (he : EdgesIn nl.ids nl.edges)
    (hr : ∀ r ∈ nl.roots, r ∈ nl.ids) : nl.WF :=
  ⟨hnd, fun e h => (he e h).1, fun e h => (he e h).2, hr⟩

theorem NodeList.WF.edgesIn {nl : NodeList} (h : nl.WF) : EdgesIn nl.ids nl.edges :=
  fun e he => ⟨h.src e he, h.dst e he⟩

theorem cleanEdges_edgesIn (nl : NodeList) : EdgesIn nl.ids nl.cleanEdges.edges :=
  cleanEdgesL_closed nl.ids nl.edges

theorem cleanEdges_wf (nl : NodeList) (hnd : nl.ids.Nodup) (hr : ∀ r ∈ nl.roots, r ∈ nl.ids) :
    nl.cleanEdges.WF :=
  wf_of_parts _ hnd (cleanEdges_edgesIn nl) hr

/-! ### Union, Add, Intersect, RemoveNodes -/

theorem union_wf (a b : NodeList) (ha : a.WF) (hb : b.WF) : (a.union b).WF := by
  refine wf_of_parts _ ?_ ?_ ?_
  · rw [union_ids_eq]; exact merged_ids_nodup a.nodes b.nodes ha.nodup hb.nodup
  · exact cleanEdgesL_closed _ _
  · intro r hr
    rcases (union_roots a b r).mp hr with h | h
    · exact (union_ids a b r).mpr (Or.inl (ha.roots r h))
    · exact (union_ids a b r).mpr (Or.inr (hb.roots r h))

theorem union_normal (a b : NodeList) : (a.union b).Normal := cleanEdgesL_normal _ _

theorem add_wf (a b : NodeList) (ha : a.WF) (hb : b.WF) : (a.add b).WF := by
  refine wf_of_parts _ ?_ ?_ ?_
  · rw [add_ids_eq]; exact merged_ids_nodup a.nodes b.nodes ha.nodup hb.nodup
  · exact cleanEdgesL_closed _ _
  · intro r hr
    rcases (add_roots a b r).mp hr with h | h
    · exact (add_ids a b r).mpr (Or.inl (ha.roots r h))
    · exact (add_ids a b r).mpr (Or.inr (hb.roots r h))

theorem add_normal (a b : NodeList) : (a.add b).Normal := cleanEdgesL_normal _ _

/-- intersection is well-formed whatever the operands are -/
theorem intersect_wf (a b : NodeList) : (a.intersect b).WF := by
  refine wf_of_parts _ (intersect_ids_nodup a b) (cleanEdgesL_closed _ _) ?_
  intro r hr
  exact (intersect_ids a b r).mpr ((intersect_roots a b r).mp hr).1

theorem intersect_normal (a b : NodeList) : (a.intersect b).Normal := cleanEdgesL_normal _ _

theorem removeNodes_wf (nl : NodeList) (rm : List String) (h : nl.WF) : (nl.removeNodes rm).WF := by
  refine wf_of_parts _ ?_ (cleanEdgesL_closed _ _) ?_
  · simp only [NodeList.removeNodes, NodeList.cleanEdges, NodeList.ids]
    exact List.Nodup.sublist (List.Sublist.map _ List.filter_sublist) h.nodup
  · intro r hr
    obtain ⟨h1, h2⟩ := (removeNodes_roots nl rm r).mp hr
    exact (removeNodes_ids nl rm r).mpr ⟨h.roots r h1, h2⟩

theorem removeNodes_normal (nl : NodeList) (rm : List String) : (nl.removeNodes rm).Normal :=
  cleanEdgesL_normal _ _

/-! ### RelateNodeAtID, RelateNodeListAtID -/

theorem relateNodeAtID_wf (nl : NodeList) (n : Node) (at_ : String) (ty : Int) (r : NodeList)
    (h : nl.WF) (hr : nl.relateNodeAtID n at_ ty = some r) : r.WF := by
  unfold NodeList.relateNodeAtID at hr
  split at hr
  · rename_i hat
    simp only [Option.some.injEq] at hr
    subst hr
    -- the identifiers of the result
    have hids : ∃ ids', ({ nl with nodes := if n.id ∈ nl.ids then nl.nodes else nl.nodes ++ [n] } : NodeList).ids = ids' ∧
        ids'.Nodup ∧ (∀ x ∈ nl.ids, x ∈ ids') ∧ n.id ∈ ids' := by
      by_cases hn : n.id ∈ nl.ids
      · exact ⟨nl.ids, by simp only [hn, if_true], h.nodup, fun _ hx => hx, hn⟩
      · refine ⟨nl.ids ++ [n.id], by simp only [hn, if_false]; simp [NodeList.ids], ?_, fun x hx => List.mem_append.mpr (Or.inl hx), by simp⟩
        rw [List.nodup_append]
        exact ⟨h.nodup, by simp, fun a ha b hb hab => by
          simp at hb; subst hb; subst hab; exact hn ha⟩
    obtain ⟨ids', hids', hnd, hsub, hn⟩ := hids
    refine wf_of_parts _ ?_ ?_ ?_
    · show ({ nl with nodes := if n.id ∈ nl.ids then nl.nodes else nl.nodes ++ [n] } : NodeList).ids.Nodup
      rw [hids']; exact hnd
    · show EdgesIn ({ nl with nodes := if n.id ∈ nl.ids then nl.nodes else nl.nodes ++ [n] } : NodeList).ids _
      rw [hids']
      simp only
      split
      · apply EdgesIn.modifyFirst (h.edgesIn.mono hsub)
        intro e he d hd
        rcases List.mem_append.mp hd with h1 | h1
        · exact hsub _ (h.dst e he d h1)
        · simp at h1; subst h1; exact hn
      · apply EdgesIn.append (h.edgesIn.mono hsub)
        intro e he
        simp at he; subst he
        exact ⟨hsub _ hat, fun d hd => by simp at hd; subst hd; exact hn⟩
    · intro x hx
      show x ∈ ({ nl with nodes := if n.id ∈ nl.ids then nl.nodes else nl.nodes ++ [n] } : NodeList).ids
      rw [hids']
      exact hsub _ (h.roots x hx)
  · cases hr

theorem relateEdges_edgesIn (ids : List String) (keys0 : List Key) (acc es : List Edge)
    (hacc : EdgesIn ids acc) (hes : EdgesIn ids es) :
    EdgesIn ids (es.foldl (relateEdgeStep keys0) acc) := by
  induction es generalizing acc with
  | nil => exact hacc
  | cons e es ih =>
    simp only [List.foldl_cons]
    apply ih
    · unfold relateEdgeStep
      split
      · apply EdgesIn.modifyFirst hacc
        intro x hx d hd
        rcases (mem_addNew _ _ d).mp hd with h1 | h1
        · exact (hacc x hx).2 d h1
        · exact (hes e List.mem_cons_self).2 d h1
      · apply EdgesIn.append hacc
        intro x hx
        simp at hx; subst hx
        exact hes x List.mem_cons_self
    · exact fun x hx => hes x (List.mem_cons_of_mem _ hx)

theorem relateNodeListAtID_wf (a b : NodeList) (at_ : String) (ty : Int) (r : NodeList)
    (ha : a.WF) (hb : b.WF) (hr : a.relateNodeListAtID b at_ ty = some r) : r.WF := by
  unfold NodeList.relateNodeListAtID at hr
  split at hr
  · rename_i hat
    simp only [Option.some.injEq] at hr
    subst hr
    have hids : ({ a with nodes := a.nodes ++ b.nodes.filter (·.id ∉ a.ids) } : NodeList).ids =
        a.nodes.map (·.id) ++ (b.nodes.filter (·.id ∉ a.nodes.map (·.id))).map (·.id) := by
      simp [NodeList.ids]
    have hmem : ∀ x, x ∈ a.nodes.map (·.id) ++ (b.nodes.filter (·.id ∉ a.nodes.map (·.id))).map (·.id) ↔
        x ∈ a.ids ∨ x ∈ b.ids := fun x => mem_merged_ids a.nodes b.nodes x
    refine wf_of_parts _ ?_ ?_ ?_
    · show ({ a with nodes := a.nodes ++ b.nodes.filter (·.id ∉ a.ids) } : NodeList).ids.Nodup
      rw [hids]
      exact merged_ids_nodup a.nodes b.nodes ha.nodup hb.nodup
    · show EdgesIn ({ a with nodes := a.nodes ++ b.nodes.filter (·.id ∉ a.ids) } : NodeList).ids _
      rw [hids]
      have hA := ha.edgesIn.mono (fun x hx => (hmem x).mpr (Or.inl hx))
      have hB := hb.edgesIn.mono (fun x hx => (hmem x).mpr (Or.inr hx))
      simp only
      apply relateEdges_edgesIn _ _ _ _ _ hB
      split
      · apply EdgesIn.modifyFirst hA
        intro e he d hd
        rcases (mem_addNew _ _ d).mp hd with h1 | h1
        · exact (hA e he).2 d h1
        · exact (hmem d).mpr (Or.inr (hb.roots d h1))
      · apply EdgesIn.append hA
        intro e he
        simp at he; subst he
        exact ⟨(hmem _).mpr (Or.inl hat), fun d hd => (hmem d).mpr (Or.inr (hb.roots d hd))⟩
    · intro x hx
      show x ∈ ({ a with nodes := a.nodes ++ b.nodes.filter (·.id ∉ a.ids) } : NodeList).ids
      rw [hids]
      exact (hmem x).mpr (Or.inl (ha.roots x hx))
  · cases hr

/-! ### extraction -/

theorem getNodeByID_id (nl : NodeList) (i : String) (n : Node) (h : nl.getNodeByID i = some n) :
    n.id = i ∧ n ∈ nl.nodes := by
  unfold NodeList.getNodeByID at h
  exact ⟨by simpa using List.find?_some h, List.mem_of_find?_eq_some h⟩

theorem getNodeByID_none (nl : NodeList) (i : String) (h : i ∉ nl.ids) : nl.getNodeByID i = none := by
  unfold NodeList.getNodeByID
  rw [List.find?_eq_none]
  intro n hn
  simp only [decide_eq_true_eq]
  intro hni
  exact h (List.mem_map.mpr ⟨n, hn, hni⟩)

theorem nodesOf_ids (nl : NodeList) (l : List String) :
    (nl.nodesOf l).map (·.id) = l.filter (· ∈ nl.ids) := by
  unfold NodeList.nodesOf
  induction l with
  | nil => rfl
  | cons x xs ih =>
    by_cases hx : x ∈ nl.ids
    · obtain ⟨n, hn, hni, _⟩ := getNodeByID_some nl x hx
      simp [List.filterMap_cons, hn, hni, hx, ih]
    · simp [List.filterMap_cons, getNodeByID_none nl x hx, hx, ih]

theorem nodesOf_mem (nl : NodeList) (l : List String) (n : Node) (h : n ∈ nl.nodesOf l) :
    n ∈ nl.nodes ∧ n.id ∈ l := by
  unfold NodeList.nodesOf at h
  obtain ⟨i, hi, hn⟩ := List.mem_filterMap.mp h
  obtain ⟨h1, h2⟩ := getNodeByID_id nl i n hn
  exact ⟨h2, h1 ▸ hi⟩

theorem nodesOf_nodup (nl : NodeList) (l : List String) (h : l.Nodup) :
    ((nl.nodesOf l).map (·.id)).Nodup := by
  rw [nodesOf_ids]; exact List.Nodup.sublist List.filter_sublist h

theorem nodeSiblings_wf (nl : NodeList) (id : String) (r : NodeList)
    (hr : nl.nodeSiblings id = some r) : r.WF := by
  unfold NodeList.nodeSiblings at hr
  split at hr
  · cases hr
  · split at hr
    · rename_i _ hin
      simp only [Option.some.injEq] at hr
      subst hr
      refine cleanEdges_wf _ ?_ ?_
      · exact nodesOf_nodup nl _ (nodup_eraseDups _)
      · intro x hx
        simp only [List.mem_singleton] at hx
        subst hx
        show x ∈ (nl.nodesOf _).map (·.id)
        rw [nodesOf_ids]
        simp only [List.mem_filter, List.mem_eraseDups, List.mem_cons, true_or, true_and]
        exact decide_eq_true hin
    · simp only [Option.some.injEq] at hr
      subst hr
      exact ⟨List.nodup_nil, by simp, by simp, by simp⟩

theorem nodeSiblings_normal (nl : NodeList) (id : String) (r : NodeList)
    (hr : nl.nodeSiblings id = some r) : r.Normal := by
  unfold NodeList.nodeSiblings at hr
  split at hr
  · cases hr
  · split at hr
    · simp only [Option.some.injEq] at hr; subst hr; exact cleanEdgesL_normal _ _
    · simp only [Option.some.injEq] at hr; subst hr
      exact ⟨by simp, by simp⟩

theorem reach_nodup (nl : NodeList) (bnd stack seen : List String) (h : seen.Nodup) :
    (nl.reach bnd stack seen).Nodup := by
  induction stack, seen using NodeList.reach.induct (nl := nl) (bnd := bnd) with
  | case1 seen => simpa [NodeList.reach] using h
  | case2 x stack seen hc ih =>
    rw [NodeList.reach]; simp only [hc, dite_true]; exact ih h
  | case3 x stack seen hc ih =>
    rw [NodeList.reach]; simp only [hc, dite_false]
    apply ih
    exact List.nodup_cons.mpr ⟨fun hx => hc (Or.inl hx), h⟩

theorem reach_sup (nl : NodeList) (bnd stack seen : List String) (x : String) (h : x ∈ seen) :
    x ∈ nl.reach bnd stack seen := by
  induction stack, seen using NodeList.reach.induct (nl := nl) (bnd := bnd) with
  | case1 seen => simpa [NodeList.reach] using h
  | case2 y stack seen hc ih =>
    rw [NodeList.reach]; simp only [hc, dite_true]; exact ih h
  | case3 y stack seen hc ih =>
    rw [NodeList.reach]; simp only [hc, dite_false]
    exact ih (List.mem_cons_of_mem _ h)

theorem nodeGraph_wf (nl : NodeList) (id : String) (r : NodeList)
    (hr : nl.nodeGraph id = some r) : r.WF := by
  unfold NodeList.nodeGraph at hr
  split at hr
  · rename_i hin
    simp only [Option.some.injEq] at hr
    subst hr
    refine cleanEdges_wf _ ?_ ?_
    · exact nodesOf_nodup nl _ (reach_nodup nl _ _ _ (by simp))
    · intro x hx
      simp only [List.mem_singleton] at hx
      subst hx
      show x ∈ (nl.nodesOf _).map (·.id)
      rw [nodesOf_ids, List.mem_filter]
      exact ⟨reach_sup nl _ _ _ _ (by simp), decide_eq_true hin⟩
  · cases hr

theorem nodeGraph_normal (nl : NodeList) (id : String) (r : NodeList)
    (hr : nl.nodeGraph id = some r) : r.Normal := by
  unfold NodeList.nodeGraph at hr
  split at hr
  · simp only [Option.some.injEq] at hr; subst hr; exact cleanEdgesL_normal _ _
  · cases hr

theorem descStep_nodup (nl : NodeList) (start : String) (st : List String × List String) (n : String)
    (h : st.1.Nodup) : (nl.descStep start st n).1.Nodup := by
  unfold NodeList.descStep
  split
  · exact h
  · rename_i hn
    split <;> exact List.nodup_cons.mpr ⟨hn, h⟩

theorem descFold_nodup (nl : NodeList) (start : String) (frontier : List String)
    (st : List String × List String) (h : st.1.Nodup) :
    (frontier.foldl (nl.descStep start) st).1.Nodup := by
  induction frontier generalizing st with
  | nil => exact h
  | cons n ns ih => simp only [List.foldl_cons]; exact ih _ (descStep_nodup nl start st n h)

theorem descLoop_nodup (nl : NodeList) (start : String) (d : Nat) (frontier seen : List String)
    (h : seen.Nodup) : (nl.descLoop start d frontier seen).Nodup := by
  induction d generalizing frontier seen with
  | zero => exact h
  | succ d ih =>
    simp only [NodeList.descLoop]
    exact ih _ _ (descFold_nodup nl start frontier (seen, []) h)

theorem nodeDescendants_wf (nl : NodeList) (id : String) (depth : Int) :
    (nl.nodeDescendants id depth).WF := by
  unfold NodeList.nodeDescendants
  split
  · rename_i hin
    refine cleanEdges_wf _ ?_ ?_
    · exact nodesOf_nodup nl _ (descLoop_nodup nl id _ _ _ List.nodup_nil)
    · intro x hx
      simp only at hx
      split at hx
      · rename_i hseen
        simp only [List.mem_singleton] at hx
        subst hx
        show x ∈ (nl.nodesOf _).map (·.id)
        rw [nodesOf_ids, List.mem_filter]
        exact ⟨hseen, decide_eq_true hin⟩
      · cases hx
  · exact ⟨List.nodup_nil, by simp, by simp, by simp⟩

theorem nodeDescendants_normal (nl : NodeList) (id : String) (depth : Int) :
    (nl.nodeDescendants id depth).Normal := by
  unfold NodeList.nodeDescendants
  split
  · exact cleanEdgesL_normal _ _
  · exact ⟨by simp, by simp⟩

theorem getNodesByPurlType_wf (nl : NodeList) (t : String) (h : nl.ids.Nodup) :
    (nl.getNodesByPurlType t).WF := by
  unfold NodeList.getNodesByPurlType
  refine cleanEdges_wf _ ?_ ?_
  · simp only [NodeList.ids]
    exact List.Nodup.sublist (List.Sublist.map _ List.filter_sublist) h
  · intro x hx
    simp only [NodeList.ids, List.mem_map, List.mem_filter] at hx ⊢
    obtain ⟨n, ⟨hn, _⟩, rfl⟩ := hx
    exact ⟨n, hn, rfl⟩

theorem getNodesByPurlType_normal (nl : NodeList) (t : String) : (nl.getNodesByPurlType t).Normal :=
  cleanEdgesL_normal _ _

end Protobom
