/-
  C01 — SPDX 2.3 write-then-read round trip preserves the SBOM graph. Property theorems only.

  `rtSPDX = serSPDX ; codecSPDX ; unserSPDX`. The class predicate is explicit: identifiers are
  unchanged by the tools-golang identifier codec and are not the reserved `DOCUMENT`, the graph is
  closed, every node is a PACKAGE or a FILE, every package's supplier/originator strings are
  unchanged by the tools-golang agent codec. `codecId_of_noPrefix` shows the first condition holds
  for every identifier not starting with `SPDXRef-`.

  Collections of any size (end of file): a hash map over the sixteen shared algorithms, a list of
  references of the eight expressible types and an identifier map over the four kinds all come
  back entry for entry (`all_hashes_preserved`, `all_references_and_identifiers_preserved`), and a
  second pass over a package node of that class changes nothing (`second_pass_package_node`).
  and over a file node (`second_pass_file_node`).
  PARTIAL: the second pass is proved node by node and for the edge list; that the tools-golang
  agent codec is again the identity on what came back is decided by stream `spdx`.
-/
import Protobom.Proofs.Spdx
import Protobom.Proofs.SpdxAttrs

namespace Protobom.C01
open Protobom Protobom.Spdx Gen

structure SpdxClass (d : Document) (md : Metadata) (nl : NodeList) : Prop where
  hmd : d.metadata = some md
  hnl : d.nodeList = some nl
  tools : ∀ t ∈ md.tools, toolName t ≠ ""
  kinds : ∀ n ∈ nl.nodes, n.typ = 0 ∨ n.typ = 1
  ids : ∀ n ∈ nl.nodes, codecId n.id = n.id ∧ n.id ≠ "" ∧ n.id ≠ "DOCUMENT"
  closedSrc : ∀ e ∈ nl.edges, e.src ∈ nl.ids
  closedDst : ∀ e ∈ nl.edges, ∀ x ∈ e.tos, x ∈ nl.ids
  roots : ∀ r ∈ nl.roots, r ∈ nl.ids
  types : ∀ e ∈ nl.edges, edgeFromSPDX2 (edgeToSPDX2 e.ty) = e.ty
  pkgs : ∀ n ∈ nl.nodes, n.typ ≠ 1 → codecPackage (packageOf n) = .ok (packageOf n)

/-- all 44 relationship types satisfy the `types` clause (regenerated tables) -/
theorem all_relationship_types_survive :
    ∀ nt ∈ Schema.edgeTypes, nt.2 ≠ 0 → edgeFromSPDX2 (edgeToSPDX2 nt.2) = nt.2 := edge_types_roundtrip

theorem all_checksum_algorithms_survive :
    ∀ a ∈ spdxHashes, hashFromSPDX (hashToSPDX a) = a ∧ a ≠ 0 ∧ knownHash a = true := hash_algos_roundtrip

theorem sixteen_checksum_algorithms : spdxHashes.length = 16 := hash_algos_count
theorem forty_four_relationship_types : (Schema.edgeTypes.filter (·.2 ≠ 0)).length = 44 := edge_types_count

theorem id_stable_of_mem (c : SpdxClass d md nl) (x : String) (hx : x ∈ nl.ids) :
    codecId x = x ∧ x ≠ "" ∧ x ≠ "DOCUMENT" := by
  obtain ⟨n, hn, rfl⟩ := List.mem_map.mp hx
  exact c.ids n hn

/-- the shape of the result: packages then files, one single-target edge per (edge, target),
    the same root list -/
theorem roundtrip_shape (d : Document) (md : Metadata) (nl : NodeList) (c : SpdxClass d md nl) :
    ∃ r, rtSPDX d = .ok r ∧ r.nodeList = some
          { nodes := (nl.nodes.filter (·.typ ≠ 1)).map (fun n => packageToNode (packageOf n)) ++
                     (nl.nodes.filter (·.typ ≠ 0)).map (fun n => fileToNode (fileOf n))
            edges := edgesBack nl.edges
            roots := nl.roots } := by
  -- the codec is the identity on what the serializer writes for a document of the class
  have hrelE : ∀ r ∈ edgeRels nl.edges, codecRel r = .ok r := by
    intro r hr
    obtain ⟨e, he, hr'⟩ := List.mem_flatMap.mp hr
    obtain ⟨x, hx, rfl⟩ := List.mem_map.mp hr'
    have h1 := id_stable_of_mem c e.src (c.closedSrc e he)
    have h2 := id_stable_of_mem c x (c.closedDst e he x hx)
    simp [codecRel, h1.1, h1.2.1, h2.1, h2.2.1]
  have hrelR : ∀ r ∈ rootRels nl.roots, codecRel r = .ok r := by
    intro r hr
    obtain ⟨x, hx, rfl⟩ := List.mem_map.mp hr
    have h2 := id_stable_of_mem c x (c.roots x hx)
    have hd : codecId "DOCUMENT" = "DOCUMENT" := by decide
    simp [codecRel, h2.1, h2.2.1, hd]
  have hrels : mapOutcome codecRel (relsOf nl) = .ok (relsOf nl) := by
    apply mapOutcome_id
    intro r hr
    rw [relsOf_eq] at hr
    rcases List.mem_append.mp hr with h | h
    · exact hrelE r h
    · exact hrelR r h
  have hpk : mapOutcome codecPackage ((nl.nodes.filter (·.typ ≠ 1)).map packageOf) =
      .ok ((nl.nodes.filter (·.typ ≠ 1)).map packageOf) := by
    apply mapOutcome_id
    intro p hp
    obtain ⟨n, hn, rfl⟩ := List.mem_map.mp hp
    have := List.mem_filter.mp hn
    exact c.pkgs n this.1 (by simpa using this.2)
  have hfiles : ((nl.nodes.filter (·.typ ≠ 0)).map fileOf).map (fun f => { f with id := codecId f.id }) =
      (nl.nodes.filter (·.typ ≠ 0)).map fileOf := by
    rw [List.map_map]
    apply List.map_congr_left
    intro n hn
    have := (c.ids n (List.mem_filter.mp hn).1).1
    simp [fileOf, this]
  have hcre : (("Tool", "protobom") :: md.tools.map (fun t => ("Tool", toolName t))).any (fun c => c.2 = "") = false := by
    simp only [List.any_cons, List.any_map, Bool.or_eq_false_iff]
    refine ⟨by decide, ?_⟩
    rw [List.any_eq_false]
    intro t ht
    simpa using c.tools t ht
  have hrt : rtSPDX d = .ok (unserSPDX
      { name := md.name, ns := "https://spdx.org/spdxdocs/", comment := md.comment
        creators := ("Tool", "protobom") :: md.tools.map (fun t => ("Tool", toolName t))
        packages := (nl.nodes.filter (·.typ ≠ 1)).map packageOf
        files := (nl.nodes.filter (·.typ ≠ 0)).map fileOf
        rels := relsOf nl }) := by
    unfold rtSPDX serSPDX
    rw [c.hmd, c.hnl]
    simp only [Outcome.bind, Outcome.map, codecSPDX, hcre, Bool.false_eq_true, if_false, hpk, hrels, hfiles]
  refine ⟨_, hrt, ?_⟩
  -- now the parser on the (unchanged) native document
  have hne : (relsOf nl).filter (fun r => decide (r.a ≠ "" ∧ r.b ≠ "")) = relsOf nl := by
    apply List.filter_eq_self.mpr
    intro r hr
    have := hrels
    rw [relsOf_eq] at hr
    rcases List.mem_append.mp hr with h | h
    · obtain ⟨e, he, hr'⟩ := List.mem_flatMap.mp h
      obtain ⟨x, hx, rfl⟩ := List.mem_map.mp hr'
      have h1 := id_stable_of_mem c e.src (c.closedSrc e he)
      have h2 := id_stable_of_mem c x (c.closedDst e he x hx)
      simp [h1.2.1, h2.2.1]
    · obtain ⟨x, hx, rfl⟩ := List.mem_map.mp h
      have h2 := id_stable_of_mem c x (c.roots x hx)
      simp [h2.2.1]
  have hsplit := filter_append_split isRootRel (edgeRels nl.edges) (rootRels nl.roots)
    (edgeRels_not_root nl.edges (fun e he => (id_stable_of_mem c e.src (c.closedSrc e he)).2.2))
    (rootRels_root nl.roots)
  simp only [unserSPDX, hne]
  rw [relsOf_eq]
  congr 1
  have e1 : (edgeRels nl.edges ++ rootRels nl.roots).filter
      (fun r => decide (r.a = "DOCUMENT" ∧ equalFoldAscii r.rel "DESCRIBES" = true)) = rootRels nl.roots := hsplit.1
  have e2 : (edgeRels nl.edges ++ rootRels nl.roots).filter
      (fun r => !decide (r.a = "DOCUMENT" ∧ equalFoldAscii r.rel "DESCRIBES" = true)) = edgeRels nl.edges := hsplit.2
  rw [e1, e2]
  simp [edgesBack, rootRels, List.map_map, Function.comp_def]

/-- same typed edges -/
theorem roundtrip_edges (nl : NodeList) (ht : ∀ e ∈ nl.edges, edgeFromSPDX2 (edgeToSPDX2 e.ty) = e.ty)
    (s : String) (t : Int) (x : String) : HasEdgeL (edgesBack nl.edges) s t x ↔ nl.HasEdge s t x :=
  hasEdge_edgesBack nl.edges ht s t x

/-- same nodes: identifier and package/file kind, each node once -/
theorem roundtrip_nodes (nl : NodeList) (hk : ∀ n ∈ nl.nodes, n.typ = 0 ∨ n.typ = 1) :
    (((nl.nodes.filter (·.typ ≠ 1)).map (fun n => packageToNode (packageOf n)) ++
      (nl.nodes.filter (·.typ ≠ 0)).map (fun n => fileToNode (fileOf n))).map (fun n => (n.id, n.typ))).Perm
    (nl.nodes.map (fun n => (n.id, n.typ))) := by
  have h1 : ((nl.nodes.filter (·.typ ≠ 1)).map (fun n => packageToNode (packageOf n))).map (fun n => (n.id, n.typ)) =
      (nl.nodes.filter (·.typ ≠ 1)).map (fun n => (n.id, n.typ)) := by
    rw [List.map_map]
    apply List.map_congr_left
    intro n hn
    have h := List.mem_filter.mp hn
    have : n.typ = 0 := by
      rcases hk n h.1 with h0 | h0
      · exact h0
      · simp [h0] at h
    simp [packageToNode, packageOf, this]
  have h2 : ((nl.nodes.filter (·.typ ≠ 0)).map (fun n => fileToNode (fileOf n))).map (fun n => (n.id, n.typ)) =
      (nl.nodes.filter (·.typ ≠ 0)).map (fun n => (n.id, n.typ)) := by
    rw [List.map_map]
    apply List.map_congr_left
    intro n hn
    have h := List.mem_filter.mp hn
    have : n.typ = 1 := by
      rcases hk n h.1 with h0 | h0
      · simp [h0] at h
      · exact h0
    simp [fileToNode, fileOf, this]
  rw [List.map_append, h1, h2, ← List.map_append]
  apply List.Perm.map
  -- filter (≠1) ++ filter (≠0) is filter p ++ filter ¬p when kinds are 0/1
  have : nl.nodes.filter (·.typ ≠ 0) = nl.nodes.filter (fun n => !decide (n.typ ≠ 1)) := by
    apply List.filter_congr
    intro n hn
    rcases hk n hn with h0 | h0 <;> simp [h0]
  rw [this]
  exact List.filter_append_perm _ _

/-! ### per-attribute preservation (packages) -/

/-- reading a written package back: the attribute with Go field name `f` -/
theorem package_attr (n : Node) (f : String) (k : Kind) (h : (f, k) ∈ Schema.nodeAttrs) :
    (packageToNode (packageOf n)).attr f = some (pkgAttr (packageOf n) f k) :=
  attr_of_schema_map _ _ _ f k h schema_keys_nodup

theorem file_attr (n : Node) (f : String) (k : Kind) (h : (f, k) ∈ Schema.nodeAttrs) :
    (fileToNode (fileOf n)).attr f = some (fileAttr (fileOf n) f k) :=
  attr_of_schema_map _ _ _ f k h schema_keys_nodup

/-- names, versions, URLs, licence comments, descriptive texts: returned verbatim -/
theorem package_scalars_preserved (n : Node) :
    (packageToNode (packageOf n)).attr "Name" = some (.str (Node.str n "Name")) ∧
    (packageToNode (packageOf n)).attr "Version" = some (.str (Node.str n "Version")) ∧
    (packageToNode (packageOf n)).attr "FileName" = some (.str (Node.str n "FileName")) ∧
    (packageToNode (packageOf n)).attr "UrlHome" = some (.str (Node.str n "UrlHome")) ∧
    (packageToNode (packageOf n)).attr "SourceInfo" = some (.str (Node.str n "SourceInfo")) ∧
    (packageToNode (packageOf n)).attr "LicenseComments" = some (.str (Node.str n "LicenseComments")) ∧
    (packageToNode (packageOf n)).attr "Comment" = some (.str (Node.str n "Comment")) ∧
    (packageToNode (packageOf n)).attr "Summary" = some (.str (Node.str n "Summary")) ∧
    (packageToNode (packageOf n)).attr "Description" = some (.str (Node.str n "Description")) := by
  refine ⟨?_, ?_, ?_, ?_, ?_, ?_, ?_, ?_, ?_⟩ <;>
    (rw [package_attr n _ .str (by simp [Schema.nodeAttrs])]; simp [pkgAttr, packageOf])

/-- download location and concluded licence up to the NOASSERTION convention; copyright trimmed -/
theorem package_conventions (n : Node) :
    (packageToNode (packageOf n)).attr "UrlDownload" =
      some (.str (if Node.str n "UrlDownload" = "" then "NOASSERTION" else Node.str n "UrlDownload")) ∧
    (packageToNode (packageOf n)).attr "LicenseConcluded" =
      some (.str (if Node.str n "LicenseConcluded" = "NOASSERTION" then "" else Node.str n "LicenseConcluded")) ∧
    (packageToNode (packageOf n)).attr "Copyright" = some (.str (Str.trimSpace (Node.str n "Copyright"))) := by
  refine ⟨?_, ?_, ?_⟩ <;> (rw [package_attr n _ .str (by simp [Schema.nodeAttrs])]; simp [pkgAttr, packageOf])

/-- dates: preserved to the second -/
theorem package_dates_preserved (n : Node) :
    (packageToNode (packageOf n)).attr "ReleaseDate" = some (dateVal (Node.dateSecs n "ReleaseDate")) ∧
    (packageToNode (packageOf n)).attr "BuildDate" = some (dateVal (Node.dateSecs n "BuildDate")) ∧
    (packageToNode (packageOf n)).attr "ValidUntilDate" = some (dateVal (Node.dateSecs n "ValidUntilDate")) := by
  refine ⟨?_, ?_, ?_⟩ <;> (rw [package_attr n _ .date (by simp [Schema.nodeAttrs])]; simp [pkgAttr, packageOf])

/-- native primary purpose: the first purpose comes back when it is one of the twelve SPDX ones -/
theorem package_purpose_preserved (n : Node) (p : Int) (rest : List Int) (hp : p ∈ spdxPurposes)
    (hn : Node.enums n "PrimaryPurpose" = p :: rest) :
    (packageToNode (packageOf n)).attr "PrimaryPurpose" = some (.enums [p]) := by
  rw [package_attr n _ .enums (by simp [Schema.nodeAttrs])]
  have h1 := purposes_roundtrip p hp
  have : purposeOut (p :: rest) = purposeOut [p] := by simp [purposeOut]
  simp [pkgAttr, packageOf, hn, this, h1]

/-- files: name, licence texts, comment verbatim; empty copyright reads back as NONE -/
theorem file_scalars_preserved (n : Node) :
    (fileToNode (fileOf n)).attr "Name" = some (.str (Node.str n "Name")) ∧
    (fileToNode (fileOf n)).attr "LicenseConcluded" = some (.str (Node.str n "LicenseConcluded")) ∧
    (fileToNode (fileOf n)).attr "LicenseComments" = some (.str (Node.str n "LicenseComments")) ∧
    (fileToNode (fileOf n)).attr "Comment" = some (.str (Node.str n "Comment")) ∧
    (fileToNode (fileOf n)).attr "Copyright" =
      some (.str (if Str.trimSpace (Node.str n "Copyright") = "" then "NONE" else Str.trimSpace (Node.str n "Copyright"))) := by
  refine ⟨?_, ?_, ?_, ?_, ?_⟩ <;> (rw [file_attr n _ .str (by simp [Schema.nodeAttrs])]; simp [fileAttr, fileOf, fileCopyright])

end Protobom.C01

namespace Protobom.C01
open Protobom Protobom.Spdx Gen

/-- checksums, identifiers and references are read back from what the serializer wrote -/
theorem package_collections (n : Node) :
    (packageToNode (packageOf n)).attr "Hashes" = some (.imap (hashesOfChecksums (checksumsOf n))) ∧
    (packageToNode (packageOf n)).attr "Identifiers" = some (.imap (refsIn (packageOf n).extRefs).2) ∧
    (packageToNode (packageOf n)).attr "ExternalReferences" = some (.refs (refsIn (packageOf n).extRefs).1) := by
  refine ⟨?_, ?_, ?_⟩
  · rw [package_attr n _ .imap (by simp [Schema.nodeAttrs])]; simp [pkgAttr, packageOf]
  · rw [package_attr n _ .imap (by simp [Schema.nodeAttrs])]; simp [pkgAttr]
  · rw [package_attr n _ .refs (by simp [Schema.nodeAttrs])]; simp [pkgAttr]

/-- one checksum of a shared algorithm reads back under the same algorithm with the same value -/
theorem checksum_entry_preserved (k : Int) (v : String) (hk : k ∈ spdxHashes) :
    hashesOfChecksums [{ algo := hashToSPDX k, value := v }] = [(k, v)] := by
  have h := hash_algos_roundtrip k hk
  simp [hashesOfChecksums, h.1, h.2.1, mapStore]

/-- one identifier (purl, CPE 2.2, CPE 2.3, gitoid) reads back under the same key -/
theorem identifier_entry_preserved (k : Int) (v : String) (hk : k ∈ [1, 2, 3, 4]) :
    refsIn [{ category := identCategory k, refType := identType k, locator := v }] = ([], [(k, v)]) := by
  have h := identifier_types_roundtrip k hk
  have hk0 : k ≠ 0 := by
    simp only [List.mem_cons, List.not_mem_nil, or_false] at hk
    omega
  simp [refsIn, h.1, h.2, hk0, mapStore]

/-- one external reference of an SPDX-expressible type reads back with type, URL and comment -/
theorem extref_entry_preserved (t : Int) (u c : String) (ht : t ∈ spdxRefTypes) :
    refsIn [{ category := refCategory t, refType := refType t, locator := u, comment := c }] =
      ([{ url := u, typ := t, comment := c }], []) := by
  have h := extref_types_roundtrip t ht
  unfold refTypeBack at h
  simp only [refsIn, List.foldl_cons, List.foldl_nil]
  split at h
  · rename_i cc heq
    simp only [Option.some.injEq] at h
    rw [heq]
    simp [h]
  · cases h

/-- first supplier: written as "Type: name" and read back as the same name and organisation flag,
    whenever the agent string is unchanged by the tools-golang codec (class clause `pkgs`) -/
theorem supplier_preserved (n : Node) (p : Person) (rest : List Person)
    (hs : Node.persons n "Suppliers" = p :: rest) (hne : clientString p ≠ "NOASSERTION") :
    (packageToNode (packageOf n)).attr "Suppliers" =
      some (.persons [Person.mk (clientString p) (clientOrg p = "Organization") "" "" "" []]) := by
  rw [package_attr n _ .persons (by simp [Schema.nodeAttrs])]
  simp [pkgAttr, packageOf, hs, hne, agentPerson, supplierPersons]

theorem originator_preserved (n : Node) (p : Person) (rest : List Person)
    (hs : Node.persons n "Originators" = p :: rest) (hne : clientString p ≠ "NOASSERTION")
    (hne' : clientString p ≠ "") :
    (packageToNode (packageOf n)).attr "Originators" =
      some (.persons [Person.mk (clientString p) (clientOrg p = "Organization") "" "" "" []]) := by
  rw [package_attr n _ .persons (by simp [Schema.nodeAttrs])]
  simp [pkgAttr, packageOf, hs, hne, hne', agentPerson, originatorPersons]

/-- PARTIAL: "a second write-then-read pass changes nothing further" is proved here for the graph
    shape only (edges that are already single-target come back as the same list); idempotence of the
    per-node attribute mapping is decided by the correspondence stream (`spdxRT2`) and its oracle. -/
theorem second_pass_edges_partial (es : List Edge)
    (ht : ∀ e ∈ es, edgeFromSPDX2 (edgeToSPDX2 e.ty) = e.ty) :
    edgesBack (edgesBack es) = edgesBack es := by
  unfold edgesBack edgeRels
  simp only [List.flatMap_map, List.map_flatMap, List.map_map]
  induction es with
  | nil => rfl
  | cons e es ih =>
    simp only [List.flatMap_cons, List.map_append, List.flatMap_append]
    rw [ih (fun x hx => ht x (List.mem_cons_of_mem _ hx))]
    congr 1
    have := ht e List.mem_cons_self
    induction e.tos with
    | nil => rfl
    | cons d ds ihd => simp [List.flatMap_cons, this, ihd]

end Protobom.C01

namespace Protobom.C01
open Protobom Protobom.Spdx Gen

def exA : Node := { id := "a", typ := 0, attrs := Schema.nodeAttrs.map (fun fk => fk.2.zero) }
def exB : Node := { id := "b", typ := 1, attrs := Schema.nodeAttrs.map (fun fk => fk.2.zero) }
def exNL : NodeList :=
  { nodes := [exA, exB]
    edges := [{ ty := 5, src := "a", tos := ["b", "a"] }, { ty := 10, src := "b", tos := ["a"] }]
    roots := ["a", "b"] }

/-- non-vacuity: a cyclic document with a self-loop, a package, a file and two roots is in the class -/
example : SpdxClass { metadata := some { id := "x" }, nodeList := some exNL } { id := "x" } exNL where
  hmd := rfl
  hnl := rfl
  tools := by simp
  kinds := by simp [exNL, exA, exB]
  ids := by
    have ha : codecId "a" = "a" := by decide
    have hb : codecId "b" = "b" := by decide
    simp [exNL, exA, exB, ha, hb]
  closedSrc := by simp [exNL, exA, exB, NodeList.ids]
  closedDst := by simp [exNL, exA, exB, NodeList.ids]
  roots := by simp [exNL, exA, exB, NodeList.ids]
  types := by
    intro e he
    simp only [exNL, List.mem_cons, List.not_mem_nil, or_false] at he
    rcases he with rfl | rfl <;> decide
  pkgs := by
    intro n hn hne
    simp only [exNL, List.mem_cons, List.not_mem_nil, or_false] at hn
    rcases hn with rfl | rfl
    · have ha : codecId "a" = "a" := by decide
      have hattr : ∀ f k, (f, k) ∈ Schema.nodeAttrs → exA.attr f = some k.zero := fun f k h =>
        attr_of_schema_map (fun _ k => k.zero) "a" 0 f k h schema_keys_nodup
      have h1 : Node.persons exA "Suppliers" = [] := by
        simp [Node.persons, hattr "Suppliers" .persons (by simp [Schema.nodeAttrs]), Kind.zero]
      have h2 : Node.persons exA "Originators" = [] := by
        simp [Node.persons, hattr "Originators" .persons (by simp [Schema.nodeAttrs]), Kind.zero]
      have h3 : Node.refs exA "ExternalReferences" = [] := by
        simp [Node.refs, hattr "ExternalReferences" .refs (by simp [Schema.nodeAttrs]), Kind.zero]
      have h4 : exA.identifiers = [] := by
        simp [Node.identifiers, Node.mapAttr, hattr "Identifiers" .imap (by simp [Schema.nodeAttrs]), Kind.zero]
      have h5 : sortedByKey ([] : List (Int × String)) = [] := by simp [sortedByKey, sortInts]
      simp [codecPackage, packageOf, optOutcome, Outcome.bind, Outcome.map, h1, h2, h3, h4, h5]
      exact ha
    · simp [exB] at hne

end Protobom.C01

namespace Protobom.C01
open Protobom Protobom.Spdx Gen

/-! ### collections of any size, and the second pass over a package node -/

/-- a hash map over the sixteen shared algorithms comes back with exactly its entries (in key
    order), whatever its size -/
theorem all_hashes_preserved (n : Node) (hk : ∀ kv ∈ n.hashes, kv.1 ∈ spdxHashes) (hnd : (n.hashes.map (·.1)).Nodup) :
    (packageToNode (packageOf n)).attr "Hashes" = some (.imap (sortedByKey n.hashes)) ∧
    (sortedByKey n.hashes).Perm n.hashes := by
  refine ⟨?_, sortedByKey_perm_self n.hashes hnd⟩
  rw [(package_collections n).1, hashes_roundtrip n hk hnd]

/-- any number of references of the eight SPDX-expressible types (with a URL) and an identifier
    map over purl / CPE 2.2 / CPE 2.3 / gitoid: every reference comes back with type, URL and comment,
    in order, and every identifier under its key -/
theorem all_references_and_identifiers_preserved (n : Node)
    (hr : ∀ e ∈ Node.refs n "ExternalReferences", e.typ ∈ spdxRefTypes ∧ e.url ≠ "")
    (hk : ∀ kv ∈ n.identifiers, kv.1 ∈ [1, 2, 3, 4]) (hnd : (n.identifiers.map (·.1)).Nodup) :
    (packageToNode (packageOf n)).attr "ExternalReferences" =
      some (.refs ((Node.refs n "ExternalReferences").map (fun e => { url := e.url, typ := e.typ, comment := e.comment }))) ∧
    (packageToNode (packageOf n)).attr "Identifiers" = some (.imap (sortedByKey n.identifiers)) := by
  have h := refs_ids_roundtrip (Node.refs n "ExternalReferences") n.identifiers (fun e he => (hr e he).1) hk hnd
  have hx : (packageOf n).extRefs = (Node.refs n "ExternalReferences").map refOut ++ (sortedByKey n.identifiers).map idOut := by
    show List.map _ (List.filter _ _) ++ _ = _
    rw [filter_url_self _ (fun e he => (hr e he).2)]
    rfl
  rw [(package_collections n).2.2, (package_collections n).2.1, hx, h]
  exact ⟨rfl, rfl⟩

/-- **a second write-then-read pass changes nothing further, package node by package node**: for a
    node whose hashes, references and identifiers are in the SPDX-expressible class, writing the
    node that came back and reading it again gives the same node — every attribute of the schema -/
theorem second_pass_package_node (n : Node) (c : SpdxPkgNode n) : rtPkg (rtPkg n) = rtPkg n :=
  second_pass_package n c

/-- the same for file nodes: names, licence texts, comments, file types, the trimmed copyright with
    its `NONE` convention and the hash map are fixpoints of a second pass -/
theorem second_pass_file_node (n : Node) (hk : ∀ kv ∈ n.hashes, kv.1 ∈ spdxHashes) (hnd : (n.hashes.map (·.1)).Nodup) :
    rtFile (rtFile n) = rtFile n := second_pass_file n hk hnd

/-- non-vacuity: a package with two hashes, a purl and a CPE is in the class -/
example : SpdxPkgNode { id := "a", typ := 0, attrs := Schema.nodeAttrs.map (fun fk =>
      if fk.1 = "Hashes" then .imap [(3, "aa"), (1, "bb")] else if fk.1 = "Identifiers" then .imap [(1, "pkg:x/y"), (3, "cpe:2.3:a")]
      else fk.2.zero) } := by
  refine ⟨by decide, by decide, by decide, by decide, by decide⟩

end Protobom.C01
