/-
  C02 — CycloneDX write-then-read round trip preserves components and containment.
  Property theorems only.

  Proved here: the enum tables per spec version; the parser half of the round trip for trees of
  any depth and fan-out (the component tree given to the parser is the containment tree of the
  parsed node list, identifiers in preorder, sole root); the edge relation of sub-list grafting.
  PARTIAL: the serializer half ("the hierarchy builder yields the containment tree for every
  permutation of the stored edges") is not yet proved in Lean; it is decided by the correspondence
  stream `cdx` (model of the two-pass builder vs the implementation, trees with shuffled and
  reversed edge lists, second pass) and its oracle.
-/
import Protobom.Proofs.Cdx

namespace Protobom.C02
open Protobom Protobom.Cdx Gen

/-! ### per-version tables -/

theorem twelve_hash_algorithms : cdxHashes.length = 12 := cdx_hash_count

theorem hash_algorithms_survive :
    ∀ a ∈ cdxHashes, (hashOut a).map hashFromCDX = some a ∧ (hashOut a).map hashIn = some a ∧ a ≠ 0 :=
  cdx_hash_roundtrip

theorem component_types_survive_15 :
    ∀ p ∈ nativePurposes15, (purposeOut p).map (fun t => purposeIn (if supportsType 5 t then t else "application")) = some p :=
  purposes_roundtrip_15

theorem component_types_survive_14 :
    ∀ p ∈ nativePurposes14, (purposeOut p).map (fun t => purposeIn (if supportsType 4 t then t else "application")) = some p :=
  purposes_roundtrip_14

theorem file_kind_survives : purposeIn "file" = 12 ∧ supportsType 4 "file" = true ∧ supportsType 5 "file" = true :=
  file_type_roundtrip

theorem reference_types_survive (v : Nat) :
    ∀ t ∈ refTypesAll, refTypeIn (convRef v { typ := refTypeOut t }).typ = t := reftypes_roundtrip_all v

theorem reference_types_survive_15 :
    ∀ t ∈ refTypes15only, refTypeIn (convRef 5 { typ := refTypeOut t }).typ = t := reftypes_roundtrip_15

theorem lifecycle_types_survive :
    ∀ t ∈ [1, 2, 3, 4, 5, 7, 8], (Tables.cdxPhaseOut.lookup t).bind phaseIn = some t := phases_roundtrip

/-! ### grafting -/

theorem graft_edges (a b : NodeList) (anchor : String) (ty : Int) (r : NodeList)
    (h : a.relateNodeListAtID b anchor ty = some r) (s : String) (t : Int) (d : String) :
    r.HasEdge s t d ↔ a.HasEdge s t d ∨ ((s, t) = (anchor, ty) ∧ d ∈ b.roots) ∨ b.HasEdge s t d :=
  relate_edges a b anchor ty r h s t d

theorem graft_nodes (a b : NodeList) (anchor : String) (ty : Int) (r : NodeList)
    (h : a.relateNodeListAtID b anchor ty = some r) (x : String) : x ∈ r.ids ↔ x ∈ a.ids ∨ x ∈ b.ids :=
  relate_ids a b anchor ty r h x

/-! ### the parser returns the containment tree, whatever the depth -/

theorem parser_returns_tree (b : Bom) (rootC : Component) (hm : b.metaComponent = some rootC)
    (hne : ∀ x ∈ rootC.refs ++ refsL b.components, x ≠ "")
    (hnd : (rootC.refs ++ refsL b.components).Nodup) :
    ∃ nl, (unserCDX b).nodeList = some nl ∧ nl.ids = rootC.refs ++ refsL b.components ∧
      nl.roots = [rootC.bomRef] ∧
      ∀ s t d, nl.HasEdge s t d ↔ t = 5 ∧
        (ChildIn rootC s d ∨ (s = rootC.bomRef ∧ d ∈ b.components.map Component.bomRef) ∨ ChildInL b.components s d) :=
  unserCDX_tree b rootC hm hne hnd

/-- serial number and numeric version come back as written -/
theorem serial_and_version (b : Bom) :
    ((unserCDX b).metadata.map (·.id)) = some b.serial ∧
    ((unserCDX b).metadata.map (·.version)) = some (toString b.version) := by
  simp [unserCDX]

/-- non-vacuity: a three-level tree with distinct references meets the hypotheses -/
example :
    let leaf (r : String) : Component := .mk r "library" "" "" "" "" "" "" none [] [] none []
    let mid : Component := .mk "m" "library" "" "" "" "" "" "" none [] [] none [leaf "x", leaf "y"]
    let root : Component := .mk "r" "application" "" "" "" "" "" "" none [] [] none []
    (∀ x ∈ root.refs ++ refsL [mid, leaf "z"], x ≠ "") ∧ (root.refs ++ refsL [mid, leaf "z"]).Nodup := by
  simp [Component.refs, refsL]

end Protobom.C02
