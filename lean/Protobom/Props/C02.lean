/-
  C02 — CycloneDX write-then-read round trip preserves components and containment.
  Property theorems only.

  Proved here: the enum tables per spec version; the parser half of the round trip for trees of
  any depth and fan-out (the component tree given to the parser is the containment tree of the
  parsed node list, identifiers in preorder, sole root); the edge relation of sub-list grafting.
  The serializer half (end of this file): on containment forests the two-pass hierarchy builder
  nests under every node its complete subtree, whatever the order of the stored edges and of the
  visits (`serializer_builds_forest`, from the invariant `nest_spec` in Proofs/Nest.lean).
  Both halves are composed in `roundtrip_forest`, and its enumeration premise is discharged from
  the forest hypotheses in `roundtrip_forest_closed` (Proofs/ForestNodup.lean). PARTIAL: attributes
  across the codec and the second-pass fixpoint are decided by the correspondence stream `cdx`.
-/
import Protobom.Proofs.Cdx
import Protobom.Proofs.Nest
import Protobom.Proofs.NestRT
import Protobom.Proofs.ForestNodup

namespace Protobom.C02
open Protobom Protobom.Cdx Gen

/-! ### per-version tables -/

theorem twelve_hash_algorithms : cdxHashes.length = 12 := cdx_hash_count

theorem hash_algorithms_survive :
    ∀ a ∈ cdxHashes, (hashOut a).map hashFromCDX = some a ∧ (hashOut a).map hashIn = some a ∧ a ≠ 0 :=
  cdx_hash_roundtrip

theorem component_types_survive_15 :
    ∀ p ∈ nativePurposes15, (purposeOut p).map (fun t => purposeIn (if supportsType 5 t then t else "application")) = some p :=
  purposes_roundtrip_15

theorem component_types_survive_14 :
    ∀ p ∈ nativePurposes14, (purposeOut p).map (fun t => purposeIn (if supportsType 4 t then t else "application")) = some p :=
  purposes_roundtrip_14

theorem file_kind_survives : purposeIn "file" = 12 ∧ supportsType 4 "file" = true ∧ supportsType 5 "file" = true :=
  file_type_roundtrip

theorem reference_types_survive (v : Nat) :
    ∀ t ∈ refTypesAll, refTypeIn (convRef v { typ := refTypeOut t }).typ = t := reftypes_roundtrip_all v

theorem reference_types_survive_15 :
    ∀ t ∈ refTypes15only, refTypeIn (convRef 5 { typ := refTypeOut t }).typ = t := reftypes_roundtrip_15

theorem lifecycle_types_survive :
    ∀ t ∈ [1, 2, 3, 4, 5, 7, 8], (Tables.cdxPhaseOut.lookup t).bind phaseIn = some t := phases_roundtrip

/-! ### grafting -/

theorem graft_edges (a b : NodeList) (anchor : String) (ty : Int) (r : NodeList)
    (h : a.relateNodeListAtID b anchor ty = some r) (s : String) (t : Int) (d : String) :
    r.HasEdge s t d ↔ a.HasEdge s t d ∨ ((s, t) = (anchor, ty) ∧ d ∈ b.roots) ∨ b.HasEdge s t d :=
  relate_edges a b anchor ty r h s t d

theorem graft_nodes (a b : NodeList) (anchor : String) (ty : Int) (r : NodeList)
    (h : a.relateNodeListAtID b anchor ty = some r) (x : String) : x ∈ r.ids ↔ x ∈ a.ids ∨ x ∈ b.ids :=
  relate_ids a b anchor ty r h x

/-! ### the parser returns the containment tree, whatever the depth -/

theorem parser_returns_tree (b : Bom) (rootC : Component) (hm : b.metaComponent = some rootC)
    (hne : ∀ x ∈ rootC.refs ++ refsL b.components, x ≠ "")
    (hnd : (rootC.refs ++ refsL b.components).Nodup) :
    ∃ nl, (unserCDX b).nodeList = some nl ∧ nl.ids = rootC.refs ++ refsL b.components ∧
      nl.roots = [rootC.bomRef] ∧
      ∀ s t d, nl.HasEdge s t d ↔ t = 5 ∧
        (ChildIn rootC s d ∨ (s = rootC.bomRef ∧ d ∈ b.components.map Component.bomRef) ∨ ChildInL b.components s d) :=
  unserCDX_tree b rootC hm hne hnd

/-- serial number and numeric version come back as written -/
theorem serial_and_version (b : Bom) :
    ((unserCDX b).metadata.map (·.id)) = some b.serial ∧
    ((unserCDX b).metadata.map (·.version)) = some (toString b.version) := by
  simp [unserCDX]

/-- non-vacuity: a three-level tree with distinct references meets the hypotheses -/
example :
    let leaf (r : String) : Component := .mk r "library" "" "" "" "" "" "" none [] [] none []
    let mid : Component := .mk "m" "library" "" "" "" "" "" "" none [] [] none [leaf "x", leaf "y"]
    let root : Component := .mk "r" "application" "" "" "" "" "" "" none [] [] none []
    (∀ x ∈ root.refs ++ refsL [mid, leaf "z"], x ≠ "") ∧ (root.refs ++ refsL [mid, leaf "z"]).Nodup := by
  simp [Component.refs, refsL]

end Protobom.C02

namespace Protobom.C02
open Protobom Protobom.Cdx

/-- **serializer half, containment forests of any depth and fan-out**: if the containment recorded
    by the first pass (edges in ANY stored order) is a forest below known nodes and the document has
    one root element, then the serializer succeeds, the top-level components are exactly the nodes
    that are neither the root nor contained in a non-root node, and each of them carries its
    COMPLETE subtree (`T`: the node's component with the subtrees of all its children nested, to any
    depth) — independently of the order in which the second pass visits the nodes. Together with
    `parser_returns_tree` (the parser turns nesting back into exactly the containment edges) this
    is the structural part of the round trip; composing the two into one statement is not done. -/
theorem serializer_builds_forest (d : Document) (md : Metadata) (nl : NodeList) (root : String) (rootNode : Node)
    (lcs : List Lifecycle) (p1 : Pass1) (ht : String → Nat) (dflt : Component)
    (hmd : d.metadata = some md) (hnl : d.nodeList = some nl) (hroots : nl.roots = [root])
    (hroot : nl.getNodeByID root = some rootNode) (hrid : rootNode.id = root)
    (hlc : serCDX.mapLifecycles md.docTypes = .ok lcs)
    (hp1 : pass1 (fun id => (dictOf nl.nodes).any (·.1 = id)) nl.edges = .ok p1)
    (F : Forest (childrenOf p1) ht (fun x => ((dictOf nl.nodes).lookup x).isSome = true) [root])
    (hht : ∀ x, ht x < (dictOf nl.nodes).length + 2) :
    ∃ (b : Bom) (placed : List String), serCDX d = .ok b ∧
      (∀ x, x ∈ placed ↔ (x = root ∨ ∃ p, p ≠ root ∧ ((dictOf nl.nodes).lookup p).isSome = true ∧ x ∈ childrenOf p1 p)) ∧
      b.components = clearAutoL (((dictOf nl.nodes).filter (fun kv => decide (kv.1 ∉ placed))).map
        (fun kv => T (childrenOf p1) (fun x => ((dictOf nl.nodes).lookup x).getD dflt) ht kv.1)) ∧
      b.deps = p1.deps ∧
      b.metaComponent = some (if md.name ≠ "" ∧ (nodeToComponent rootNode).name = ""
        then (nodeToComponent rootNode).withName md.name else nodeToComponent rootNode) :=
  serCDX_forest d md nl root rootNode lcs p1 ht dflt hmd hnl hroots hroot hrid hlc hp1 F hht

/-- the invariant behind it: one call of the hierarchy builder, on any state reached so far -/
theorem nest_builds_complete_subtrees (children : String → List String) (c0 : String → Component) (ht : String → Nat)
    (D : String → Prop) (P0 : List String) (F : Forest children ht D P0) (fuel : Nat) (id : String)
    (path : List String) (st : NestSt) (hg : Good children c0 ht D P0 path st) (hD : D id) (hf : ht id < fuel)
    (hp : id ∉ path) (hph : ∀ a ∈ path, ht id < ht a) :
    NestPost children c0 ht D P0 path id st (nest children fuel id path st) :=
  nest_spec children c0 ht D P0 F fuel id path st hg hD hf hp hph

/-- **the round trip on containment forests, both halves composed**: for a document with one root
    element whose containment (edges stored in any order) is a forest below known nodes with
    non-empty identifiers that do not look generated, writing as CycloneDX 1.`v` and reading the
    result back succeeds and gives a node list whose identifiers are the root followed by the
    preorder of the top-level subtrees (the nodes that are neither the root nor contained in a
    non-root node, each with everything below it), whose only root element is the root, and whose
    edges are exactly: the root contains every top-level node; every other node contains exactly
    the nodes the document says it contains. The premise that this enumeration has no repetition
    is explicit (it holds for forests; deriving it from the forest axioms is not done). -/
theorem roundtrip_forest (v : Nat) (d : Document) (md : Metadata) (nl : NodeList) (root : String) (rootNode : Node)
    (lcs : List Lifecycle) (p1 : Pass1) (ht : String → Nat)
    (hmd : d.metadata = some md) (hnl : d.nodeList = some nl) (hroots : nl.roots = [root])
    (hroot : nl.getNodeByID root = some rootNode) (hrid : rootNode.id = root)
    (hlc : serCDX.mapLifecycles md.docTypes = .ok lcs)
    (hp1 : pass1 (fun id => (dictOf nl.nodes).any (·.1 = id)) nl.edges = .ok p1)
    (F : Forest (childrenOf p1) ht (fun x => ((dictOf nl.nodes).lookup x).isSome = true) [root])
    (hht : ∀ x, ht x < (dictOf nl.nodes).length + 2)
    (hids : ∀ x, ((dictOf nl.nodes).lookup x).isSome = true → x ≠ "" ∧ isAutoRef x = false) :
    ∃ placed : List String,
      (∀ x, x ∈ placed ↔ (x = root ∨ ∃ p, p ≠ root ∧ ((dictOf nl.nodes).lookup p).isSome = true ∧ x ∈ childrenOf p1 p)) ∧
      let tops := ((dictOf nl.nodes).filter (fun kv => decide (kv.1 ∉ placed))).map (·.1)
      let preT := fun t => pre (childrenOf p1) (ht t + 1) t
      (root :: tops.flatMap preT).Nodup →
      ∃ d' nl', rtCDX v d = .ok d' ∧ d'.nodeList = some nl' ∧
        nl'.ids = root :: tops.flatMap preT ∧ nl'.roots = [root] ∧
        ∀ s t x, nl'.HasEdge s t x ↔ t = 5 ∧
          ((s = root ∧ x ∈ tops) ∨ ((∃ t' ∈ tops, s ∈ preT t') ∧ x ∈ childrenOf p1 s)) :=
  rtCDX_forest v d md nl root rootNode lcs p1 ht hmd hnl hroots hroot hrid hlc hp1 F hht hids

/-- the enumeration premise of `roundtrip_forest` holds in every containment forest, so the round
    trip theorem needs only the forest hypotheses -/
theorem roundtrip_forest_closed (v : Nat) (d : Document) (md : Metadata) (nl : NodeList) (root : String) (rootNode : Node)
    (lcs : List Lifecycle) (p1 : Pass1) (ht : String → Nat)
    (hmd : d.metadata = some md) (hnl : d.nodeList = some nl) (hroots : nl.roots = [root])
    (hroot : nl.getNodeByID root = some rootNode) (hrid : rootNode.id = root)
    (hlc : serCDX.mapLifecycles md.docTypes = .ok lcs)
    (hp1 : pass1 (fun id => (dictOf nl.nodes).any (·.1 = id)) nl.edges = .ok p1)
    (F : Forest (childrenOf p1) ht (fun x => ((dictOf nl.nodes).lookup x).isSome = true) [root])
    (hht : ∀ x, ht x < (dictOf nl.nodes).length + 2)
    (hids : ∀ x, ((dictOf nl.nodes).lookup x).isSome = true → x ≠ "" ∧ isAutoRef x = false) :
    ∃ (placed : List String) (d' : Document) (nl' : NodeList),
      (∀ x, x ∈ placed ↔ (x = root ∨ ∃ p, p ≠ root ∧ ((dictOf nl.nodes).lookup p).isSome = true ∧ x ∈ childrenOf p1 p)) ∧
      rtCDX v d = .ok d' ∧ d'.nodeList = some nl' ∧ nl'.roots = [root] ∧ nl'.ids.Nodup ∧
      nl'.ids = root :: (((dictOf nl.nodes).filter (fun kv => decide (kv.1 ∉ placed))).map (·.1)).flatMap
          (fun t => pre (childrenOf p1) (ht t + 1) t) ∧
      ∀ s t x, nl'.HasEdge s t x ↔ t = 5 ∧
        ((s = root ∧ x ∈ ((dictOf nl.nodes).filter (fun kv => decide (kv.1 ∉ placed))).map (·.1)) ∨
         ((∃ t' ∈ ((dictOf nl.nodes).filter (fun kv => decide (kv.1 ∉ placed))).map (·.1),
            s ∈ pre (childrenOf p1) (ht t' + 1) t') ∧ x ∈ childrenOf p1 s)) := by
  obtain ⟨placed, hpl, h⟩ := rtCDX_forest v d md nl root rootNode lcs p1 ht hmd hnl hroots hroot hrid hlc hp1 F hht hids
  have hnd := forest_preorder_nodup (childrenOf p1) ht root (dictOf nl.nodes) (dictOf_keys_nodup nl.nodes) F
    ((dictOf nl.nodes).length + 2) hht placed hpl
  obtain ⟨d', nl', h1, h2, h3, h4, h5⟩ := h hnd
  exact ⟨placed, d', nl', hpl, h1, h2, h4, h3 ▸ hnd, h3, h5⟩

end Protobom.C02
