/-
  C02 — CycloneDX write-then-read round trip preserves components and containment.
  Property theorems only.

  Proved here: the enum tables per spec version; the parser half of the round trip for trees of
  any depth and fan-out (the component tree given to the parser is the containment tree of the
  parsed node list, identifiers in preorder, sole root); the edge relation of sub-list grafting.
  The serializer half (end of this file): on containment forests the two-pass hierarchy builder
  nests under every node its complete subtree, whatever the order of the stored edges and of the
  visits (`serializer_builds_forest`, from the invariant `nest_spec` in Proofs/Nest.lean).
  Both halves are composed in `roundtrip_forest`, and its enumeration premise is discharged from
  the forest hypotheses in `roundtrip_forest_closed` (Proofs/ForestNodup.lean). PARTIAL: attributes
  across the codec and the second-pass fixpoint are decided by the correspondence stream `cdx`.
-/
import Protobom.Proofs.Cdx
import Protobom.Proofs.Nest
import Protobom.Proofs.NestRT
import Protobom.Proofs.ForestNodup
import Protobom.Proofs.CdxAttrs
import Protobom.Proofs.NestNodes
import Protobom.Proofs.CdxSecond

namespace Protobom.C02
open Protobom Protobom.Cdx Gen

/-! ### per-version tables -/

theorem twelve_hash_algorithms : cdxHashes.length = 12 := cdx_hash_count

theorem hash_algorithms_survive :
    ∀ a ∈ cdxHashes, (hashOut a).map hashFromCDX = some a ∧ (hashOut a).map hashIn = some a ∧ a ≠ 0 :=
  cdx_hash_roundtrip

theorem component_types_survive_15 :
    ∀ p ∈ nativePurposes15, (purposeOut p).map (fun t => purposeIn (if supportsType 5 t then t else "application")) = some p :=
  purposes_roundtrip_15

theorem component_types_survive_14 :
    ∀ p ∈ nativePurposes14, (purposeOut p).map (fun t => purposeIn (if supportsType 4 t then t else "application")) = some p :=
  purposes_roundtrip_14

theorem file_kind_survives : purposeIn "file" = 12 ∧ supportsType 4 "file" = true ∧ supportsType 5 "file" = true :=
  file_type_roundtrip

theorem reference_types_survive (v : Nat) :
    ∀ t ∈ refTypesAll, refTypeIn (convRef v { typ := refTypeOut t }).typ = t := reftypes_roundtrip_all v

theorem reference_types_survive_15 :
    ∀ t ∈ refTypes15only, refTypeIn (convRef 5 { typ := refTypeOut t }).typ = t := reftypes_roundtrip_15

theorem lifecycle_types_survive :
    ∀ t ∈ [1, 2, 3, 4, 5, 7, 8], (Tables.cdxPhaseOut.lookup t).bind phaseIn = some t := phases_roundtrip

/-! ### grafting -/

theorem graft_edges (a b : NodeList) (anchor : String) (ty : Int) (r : NodeList)
    (h : a.relateNodeListAtID b anchor ty = some r) (s : String) (t : Int) (d : String) :
    r.HasEdge s t d ↔ a.HasEdge s t d ∨ ((s, t) = (anchor, ty) ∧ d ∈ b.roots) ∨ b.HasEdge s t d :=
  relate_edges a b anchor ty r h s t d

theorem graft_nodes (a b : NodeList) (anchor : String) (ty : Int) (r : NodeList)
    (h : a.relateNodeListAtID b anchor ty = some r) (x : String) : x ∈ r.ids ↔ x ∈ a.ids ∨ x ∈ b.ids :=
  relate_ids a b anchor ty r h x

/-! ### the parser returns the containment tree, whatever the depth -/

theorem parser_returns_tree (b : Bom) (rootC : Component) (hm : b.metaComponent = some rootC)
    (hne : ∀ x ∈ rootC.refs ++ refsL b.components, x ≠ "")
    (hnd : (rootC.refs ++ refsL b.components).Nodup) :
    ∃ nl, (unserCDX b).nodeList = some nl ∧ nl.ids = rootC.refs ++ refsL b.components ∧
      nl.roots = [rootC.bomRef] ∧
      ∀ s t d, nl.HasEdge s t d ↔ t = 5 ∧
        (ChildIn rootC s d ∨ (s = rootC.bomRef ∧ d ∈ b.components.map Component.bomRef) ∨ ChildInL b.components s d) :=
  unserCDX_tree b rootC hm hne hnd

/-- serial number and numeric version come back as written -/
theorem serial_and_version (b : Bom) :
    ((unserCDX b).metadata.map (·.id)) = some b.serial ∧
    ((unserCDX b).metadata.map (·.version)) = some (toString b.version) := by
  simp [unserCDX]

/-- non-vacuity: a three-level tree with distinct references meets the hypotheses -/
example :
    let leaf (r : String) : Component := .mk r "library" "" "" "" "" "" "" none [] [] none []
    let mid : Component := .mk "m" "library" "" "" "" "" "" "" none [] [] none [leaf "x", leaf "y"]
    let root : Component := .mk "r" "application" "" "" "" "" "" "" none [] [] none []
    (∀ x ∈ root.refs ++ refsL [mid, leaf "z"], x ≠ "") ∧ (root.refs ++ refsL [mid, leaf "z"]).Nodup := by
  simp [Component.refs, refsL]

end Protobom.C02

namespace Protobom.C02
open Protobom Protobom.Cdx

/-- **serializer half, containment forests of any depth and fan-out**: if the containment recorded
    by the first pass (edges in ANY stored order) is a forest below known nodes and the document has
    one root element, then the serializer succeeds, the top-level components are exactly the nodes
    that are neither the root nor contained in a non-root node, and each of them carries its
    COMPLETE subtree (`T`: the node's component with the subtrees of all its children nested, to any
    depth) — independently of the order in which the second pass visits the nodes. Together with
    `parser_returns_tree` (the parser turns nesting back into exactly the containment edges) this
    is the structural part of the round trip; composing the two into one statement is not done. -/
theorem serializer_builds_forest (d : Document) (md : Metadata) (nl : NodeList) (root : String) (rootNode : Node)
    (lcs : List Lifecycle) (p1 : Pass1) (ht : String → Nat) (dflt : Component)
    (hmd : d.metadata = some md) (hnl : d.nodeList = some nl) (hroots : nl.roots = [root])
    (hroot : nl.getNodeByID root = some rootNode) (hrid : rootNode.id = root)
    (hlc : serCDX.mapLifecycles md.docTypes = .ok lcs)
    (hp1 : pass1 (fun id => (dictOf nl.nodes).any (·.1 = id)) nl.edges = .ok p1)
    (F : Forest (childrenOf p1) ht (fun x => ((dictOf nl.nodes).lookup x).isSome = true) [root])
    (hht : ∀ x, ht x < (dictOf nl.nodes).length + 2) :
    ∃ (b : Bom) (placed : List String), serCDX d = .ok b ∧
      (∀ x, x ∈ placed ↔ (x = root ∨ ∃ p, p ≠ root ∧ ((dictOf nl.nodes).lookup p).isSome = true ∧ x ∈ childrenOf p1 p)) ∧
      b.components = clearAutoL (((dictOf nl.nodes).filter (fun kv => decide (kv.1 ∉ placed))).map
        (fun kv => T (childrenOf p1) (fun x => ((dictOf nl.nodes).lookup x).getD dflt) ht kv.1)) ∧
      b.deps = p1.deps ∧
      b.metaComponent = some (if md.name ≠ "" ∧ (nodeToComponent rootNode).name = ""
        then (nodeToComponent rootNode).withName md.name else nodeToComponent rootNode) :=
  serCDX_forest d md nl root rootNode lcs p1 ht dflt hmd hnl hroots hroot hrid hlc hp1 F hht

/-- the invariant behind it: one call of the hierarchy builder, on any state reached so far -/
theorem nest_builds_complete_subtrees (children : String → List String) (c0 : String → Component) (ht : String → Nat)
    (D : String → Prop) (P0 : List String) (F : Forest children ht D P0) (fuel : Nat) (id : String)
    (path : List String) (st : NestSt) (hg : Good children c0 ht D P0 path st) (hD : D id) (hf : ht id < fuel)
    (hp : id ∉ path) (hph : ∀ a ∈ path, ht id < ht a) :
    NestPost children c0 ht D P0 path id st (nest children fuel id path st) :=
  nest_spec children c0 ht D P0 F fuel id path st hg hD hf hp hph

/-- **the round trip on containment forests, both halves composed**: for a document with one root
    element whose containment (edges stored in any order) is a forest below known nodes with
    non-empty identifiers that do not look generated, writing as CycloneDX 1.`v` and reading the
    result back succeeds and gives a node list whose identifiers are the root followed by the
    preorder of the top-level subtrees (the nodes that are neither the root nor contained in a
    non-root node, each with everything below it), whose only root element is the root, and whose
    edges are exactly: the root contains every top-level node; every other node contains exactly
    the nodes the document says it contains. The premise that this enumeration has no repetition
    is explicit (it holds for forests; deriving it from the forest axioms is not done). -/
theorem roundtrip_forest (v : Nat) (d : Document) (md : Metadata) (nl : NodeList) (root : String) (rootNode : Node)
    (lcs : List Lifecycle) (p1 : Pass1) (ht : String → Nat)
    (hmd : d.metadata = some md) (hnl : d.nodeList = some nl) (hroots : nl.roots = [root])
    (hroot : nl.getNodeByID root = some rootNode) (hrid : rootNode.id = root)
    (hlc : serCDX.mapLifecycles md.docTypes = .ok lcs)
    (hp1 : pass1 (fun id => (dictOf nl.nodes).any (·.1 = id)) nl.edges = .ok p1)
    (F : Forest (childrenOf p1) ht (fun x => ((dictOf nl.nodes).lookup x).isSome = true) [root])
    (hht : ∀ x, ht x < (dictOf nl.nodes).length + 2)
    (hids : ∀ x, ((dictOf nl.nodes).lookup x).isSome = true → x ≠ "" ∧ isAutoRef x = false) :
    ∃ placed : List String,
      (∀ x, x ∈ placed ↔ (x = root ∨ ∃ p, p ≠ root ∧ ((dictOf nl.nodes).lookup p).isSome = true ∧ x ∈ childrenOf p1 p)) ∧
      let tops := ((dictOf nl.nodes).filter (fun kv => decide (kv.1 ∉ placed))).map (·.1)
      let preT := fun t => pre (childrenOf p1) (ht t + 1) t
      (root :: tops.flatMap preT).Nodup →
      ∃ d' nl', rtCDX v d = .ok d' ∧ d'.nodeList = some nl' ∧
        nl'.ids = root :: tops.flatMap preT ∧ nl'.roots = [root] ∧
        ∀ s t x, nl'.HasEdge s t x ↔ t = 5 ∧
          ((s = root ∧ x ∈ tops) ∨ ((∃ t' ∈ tops, s ∈ preT t') ∧ x ∈ childrenOf p1 s)) :=
  rtCDX_forest v d md nl root rootNode lcs p1 ht hmd hnl hroots hroot hrid hlc hp1 F hht hids

/-- the enumeration premise of `roundtrip_forest` holds in every containment forest, so the round
    trip theorem needs only the forest hypotheses -/
theorem roundtrip_forest_closed (v : Nat) (d : Document) (md : Metadata) (nl : NodeList) (root : String) (rootNode : Node)
    (lcs : List Lifecycle) (p1 : Pass1) (ht : String → Nat)
    (hmd : d.metadata = some md) (hnl : d.nodeList = some nl) (hroots : nl.roots = [root])
    (hroot : nl.getNodeByID root = some rootNode) (hrid : rootNode.id = root)
    (hlc : serCDX.mapLifecycles md.docTypes = .ok lcs)
    (hp1 : pass1 (fun id => (dictOf nl.nodes).any (·.1 = id)) nl.edges = .ok p1)
    (F : Forest (childrenOf p1) ht (fun x => ((dictOf nl.nodes).lookup x).isSome = true) [root])
    (hht : ∀ x, ht x < (dictOf nl.nodes).length + 2)
    (hids : ∀ x, ((dictOf nl.nodes).lookup x).isSome = true → x ≠ "" ∧ isAutoRef x = false) :
    ∃ (placed : List String) (d' : Document) (nl' : NodeList),
      (∀ x, x ∈ placed ↔ (x = root ∨ ∃ p, p ≠ root ∧ ((dictOf nl.nodes).lookup p).isSome = true ∧ x ∈ childrenOf p1 p)) ∧
      rtCDX v d = .ok d' ∧ d'.nodeList = some nl' ∧ nl'.roots = [root] ∧ nl'.ids.Nodup ∧
      nl'.ids = root :: (((dictOf nl.nodes).filter (fun kv => decide (kv.1 ∉ placed))).map (·.1)).flatMap
          (fun t => pre (childrenOf p1) (ht t + 1) t) ∧
      ∀ s t x, nl'.HasEdge s t x ↔ t = 5 ∧
        ((s = root ∧ x ∈ ((dictOf nl.nodes).filter (fun kv => decide (kv.1 ∉ placed))).map (·.1)) ∨
         ((∃ t' ∈ ((dictOf nl.nodes).filter (fun kv => decide (kv.1 ∉ placed))).map (·.1),
            s ∈ pre (childrenOf p1) (ht t' + 1) t') ∧ x ∈ childrenOf p1 s)) := by
  obtain ⟨placed, hpl, h⟩ := rtCDX_forest v d md nl root rootNode lcs p1 ht hmd hnl hroots hroot hrid hlc hp1 F hht hids
  have hnd := forest_preorder_nodup (childrenOf p1) ht root (dictOf nl.nodes) (dictOf_keys_nodup nl.nodes) F
    ((dictOf nl.nodes).length + 2) hht placed hpl
  obtain ⟨d', nl', h1, h2, h3, h4, h5⟩ := h hnd
  exact ⟨placed, d', nl', hpl, h1, h2, h4, h3 ▸ hnd, h3, h5⟩

end Protobom.C02

namespace Protobom.C02
open Protobom Protobom.Cdx

/-! ### non-vacuity of the forest hypotheses: root r contains a, a contains b -/

def exNode (id : String) : Node := { id := id, typ := 0, attrs := Gen.Schema.nodeAttrs.map (fun fk => fk.2.zero) }
def exNL3 : NodeList :=
  { nodes := [exNode "b", exNode "r", exNode "a"],
    edges := [{ ty := 5, src := "a", tos := ["b"] }, { ty := 5, src := "r", tos := ["a"] }], roots := ["r"] }
def exP1 : Pass1 := { children := [("a", ["b"]), ("r", ["a"])], deps := [] }
def exHt (x : String) : Nat := if x = "r" then 2 else if x = "a" then 1 else 0

theorem ex_pass1 : pass1 (fun id => (dictOf exNL3.nodes).any (·.1 = id)) exNL3.edges = .ok exP1 := by rfl

theorem ex_children (x : String) : childrenOf exP1 x = if x = "a" then ["b"] else if x = "r" then ["a"] else [] := by
  simp only [childrenOf, exP1, List.lookup_cons, List.lookup_nil]
  by_cases ha : x = "a"
  · simp [ha]
  · by_cases hr : x = "r"
    · simp [hr]
    · have e1 : (x == "a") = false := by simpa using ha
      have e2 : (x == "r") = false := by simpa using hr
      simp [ha, hr, e1, e2]

theorem ex_forest : Forest (childrenOf exP1) exHt (fun x => ((dictOf exNL3.nodes).lookup x).isSome = true) ["r"] := by
  refine ⟨?_, ?_, ?_, ?_, ?_⟩
  · intro id t ht'
    rw [ex_children] at ht'
    by_cases ha : id = "a"
    · simp only [ha, if_true, List.mem_singleton] at ht'; subst ht'; subst ha; decide
    · by_cases hr : id = "r"
      · subst hr
        have hne : ("r" : String) ≠ "a" := by decide
        simp only [hne, if_false, if_true, List.mem_singleton] at ht'; subst ht'; decide
      · simp [ha, hr] at ht'
  · intro a b t h1 h2
    rw [ex_children] at h1 h2
    by_cases ha : a = "a" <;> by_cases hb : b = "a" <;> by_cases ha' : a = "r" <;> by_cases hb' : b = "r" <;>
      simp_all
  · intro a
    rw [ex_children]
    by_cases ha : a = "a"
    · simp [ha]
    · by_cases hr : a = "r" <;> simp [ha, hr]
  · intro id t _ ht'
    rw [ex_children] at ht'
    by_cases ha : id = "a"
    · simp only [ha, if_true, List.mem_singleton] at ht'; subst ht'; decide
    · by_cases hr : id = "r"
      · subst hr
        have hne : ("r" : String) ≠ "a" := by decide
        simp only [hne, if_false, if_true, List.mem_singleton] at ht'; subst ht'; decide
      · simp [ha, hr] at ht'
  · intro id t ht'
    rw [ex_children] at ht'
    by_cases ha : id = "a"
    · simp only [ha, if_true, List.mem_singleton] at ht'; subst ht'; decide
    · by_cases hr : id = "r"
      · subst hr
        have hne : ("r" : String) ≠ "a" := by decide
        simp only [hne, if_false, if_true, List.mem_singleton] at ht'; subst ht'; decide
      · simp [ha, hr] at ht'

end Protobom.C02

namespace Protobom.C02
open Protobom Protobom.Cdx

def exMd : Metadata := { id := "urn:uuid:1", version := "1" }
def exDoc : Document := { metadata := some exMd, nodeList := some exNL3 }

/-- the premises of `roundtrip_forest_closed` are met by a three-level document whose edges are
    stored bottom-up, and its conclusion follows for it -/
example : ∃ (d' : Document) (nl' : NodeList),
    rtCDX 5 exDoc = .ok d' ∧ d'.nodeList = some nl' ∧ nl'.roots = ["r"] ∧ nl'.ids.Nodup ∧
    nl'.HasEdge "a" 5 "b" := by
  have hlen : (dictOf exNL3.nodes).length = 3 := by rfl
  obtain ⟨placed, d', nl', hpl, h1, h2, h3, h4, _, h6⟩ :=
    roundtrip_forest_closed 5 exDoc exMd exNL3 "r" (exNode "r") [] exP1 exHt rfl rfl rfl (by rfl) rfl (by rfl)
      ex_pass1 ex_forest
      (by
        intro x
        rw [hlen]
        unfold exHt
        by_cases h : x = "r"
        · simp [h]
        · by_cases h' : x = "a" <;> simp [h, h'])
      (by
        intro x hx
        have := (dictOf_known exNL3.nodes x).mp hx
        simp only [exNL3, exNode, List.map_cons, List.map_nil, List.mem_cons, List.not_mem_nil, or_false] at this
        rcases this with rfl | rfl | rfl <;> decide)
  refine ⟨d', nl', h1, h2, h3, h4, ?_⟩
  rw [h6]
  refine ⟨rfl, Or.inr ⟨?_, ?_⟩⟩
  · -- "a" is a top-level node: it is not nested (its only container is the root)
    refine ⟨"a", ?_, ?_⟩
    · rw [List.mem_map]
      refine ⟨("a", nodeToComponent (exNode "a")), ?_, rfl⟩
      rw [List.mem_filter]
      refine ⟨List.mem_of_getElem? (i := 2) (by rfl), ?_⟩
      simp only [decide_eq_true_eq]
      intro hmem
      rcases (hpl "a").mp hmem with h | ⟨p, hp, _, hc⟩
      · exact absurd h (by decide)
      · rw [ex_children] at hc
        by_cases ha : p = "a"
        · subst ha; simp at hc
        · by_cases hr : p = "r"
          · exact hp hr
          · simp [ha, hr] at hc
    · simp [pre, exHt]
  · rw [ex_children]; simp

end Protobom.C02

namespace Protobom.C02
open Protobom Protobom.Cdx Gen

/-! ### per-node attributes across the codec (`rtNode v n`: node `n` written as a component,
    converted for CycloneDX 1.`v`, read back) -/

/-- name, description, copyright: verbatim at every version; the version string verbatim from
    1.4 on, and at 1.3 whenever it is not empty (cyclonedx-go fills `0.0.0` in there) -/
theorem node_scalars_preserved (v : Nat) (n : Node) :
    (rtNode v n).attr "Name" = some (.str (Spdx.Node.str n "Name")) ∧
    (rtNode v n).attr "Description" = some (.str (Spdx.Node.str n "Description")) ∧
    (rtNode v n).attr "Copyright" = some (.str (Spdx.Node.str n "Copyright")) ∧
    (rtNode v n).attr "Version" =
      some (.str (if v < 4 ∧ Spdx.Node.str n "Version" = "" then "0.0.0" else Spdx.Node.str n "Version")) := by
  refine ⟨?_, ?_, ?_, ?_⟩ <;>
    (rw [rtNode_attr v n _ .str (by simp [Schema.nodeAttrs])]; simp [compAttr, nodeToComponent, convComp])

theorem node_id_preserved (v : Nat) (n : Node) (h : n.id ≠ "") : (rtNode v n).id = n.id := rtNode_id v n h

/-- file kind: a FILE node comes back as a FILE node with the FILE purpose, at every version -/
theorem file_kind_preserved (v : Nat) (n : Node) (h : n.typ = 1) :
    (rtNode v n).typ = 1 ∧ (rtNode v n).attr "PrimaryPurpose" = some (.enums [12]) := by
  have h1 : supportsType v "file" = true := by simp [supportsType]
  have h2 : purposeIn "file" = 12 := by decide
  constructor
  · simp [rtNode, nodeToComponent, convComp, componentToNode, h, h1, h2]
  · rw [rtNode_attr v n _ .enums (by simp [Schema.nodeAttrs])]
    simp [compAttr, nodeToComponent, convComp, h, h1, h2]

/-- native component type at 1.5: a package node whose first purpose is one of the eleven native
    ones keeps exactly that purpose and stays a package -/
theorem component_type_preserved_15 (n : Node) (p : Int) (rest : List Int) (h : n.typ ≠ 1)
    (hp : p ∈ nativePurposes15) (hn : Spdx.Node.enums n "PrimaryPurpose" = p :: rest) :
    (rtNode 5 n).typ = 0 ∧ (rtNode 5 n).attr "PrimaryPurpose" = some (.enums [p]) := by
  have h1 := purposes_roundtrip_15 p hp
  cases ho : purposeOut p with
  | none => rw [ho] at h1; simp at h1
  | some t =>
    rw [ho] at h1
    simp only [Option.map_some, Option.some.injEq] at h1
    have hne : p ≠ 12 := by
      intro e; rw [e] at hp; revert hp; decide
    constructor
    · simp [rtNode, nodeToComponent, convComp, componentToNode, h, hn, ho, h1, hne]
    · rw [rtNode_attr 5 n _ .enums (by simp [Schema.nodeAttrs])]
      simp [compAttr, nodeToComponent, convComp, h, hn, ho, h1]

/-- the same at 1.4, for the seven types that version has -/
theorem component_type_preserved_14 (n : Node) (p : Int) (rest : List Int) (h : n.typ ≠ 1)
    (hp : p ∈ nativePurposes14) (hn : Spdx.Node.enums n "PrimaryPurpose" = p :: rest) :
    (rtNode 4 n).typ = 0 ∧ (rtNode 4 n).attr "PrimaryPurpose" = some (.enums [p]) := by
  have h1 := purposes_roundtrip_14 p hp
  cases ho : purposeOut p with
  | none => rw [ho] at h1; simp at h1
  | some t =>
    rw [ho] at h1
    simp only [Option.map_some, Option.some.injEq] at h1
    have hne : p ≠ 12 := by
      intro e; rw [e] at hp; revert hp; decide
    constructor
    · simp [rtNode, nodeToComponent, convComp, componentToNode, h, hn, ho, h1, hne]
    · rw [rtNode_attr 4 n _ .enums (by simp [Schema.nodeAttrs])]
      simp [compAttr, nodeToComponent, convComp, h, hn, ho, h1]

/-- hashes: a hash map over the twelve CycloneDX algorithms comes back with exactly its entries
    (in key order), whatever its size -/
theorem node_hashes_preserved (v : Nat) (n : Node) (hk : ∀ kv ∈ n.hashes, kv.1 ∈ cdxHashes)
    (hnd : (n.hashes.map (·.1)).Nodup) :
    (rtNode v n).attr "Hashes" = some (.imap (sortedByKey n.hashes)) ∧ (sortedByKey n.hashes).Perm n.hashes := by
  constructor
  · rw [rtNode_attr v n _ .imap (by simp [Schema.nodeAttrs])]
    simp only [compAttr, nodeToComponent, convComp]
    simp [compHashes_hashesOut n.hashes hk hnd]
  · exact sortedByKey_perm_self n.hashes hnd

/-- software identifiers: the purl comes back under key 1; a CPE 2.3 string under key 3 and any
    other CPE string under key 2 (CycloneDX has one `cpe` member: 2.3 wins when both are present) -/
theorem node_identifiers_preserved (v : Nat) (n : Node) :
    (rtNode v n).attr "Identifiers" = some (.imap (compIds ((n.identifiers.lookup 1).getD "")
      ((n.identifiers.lookup 3).getD ((n.identifiers.lookup 2).getD "")))) := by
  rw [rtNode_attr v n _ .imap (by simp [Schema.nodeAttrs])]
  simp only [compAttr, nodeToComponent, convComp]
  cases n.identifiers.lookup 3 <;> simp

theorem identifiers_read_back (purl cpe : String) :
    (compIds purl cpe).lookup 1 = (if purl = "" then none else some purl) ∧
    (compIds purl cpe).lookup 3 = (if cpe ≠ "" ∧ Str.hasPrefix cpe "cpe:2.3" = true then some cpe else none) ∧
    (compIds purl cpe).lookup 2 = (if cpe ≠ "" ∧ Str.hasPrefix cpe "cpe:2.3" = false then some cpe else none) := by
  simp only [compIds]
  refine ⟨?_, ?_, ?_⟩
  · by_cases h1 : cpe = "" <;> by_cases h2 : purl = "" <;> by_cases h3 : Str.hasPrefix cpe "cpe:2.3" = true <;>
      simp [h1, h2, h3, List.lookup]
  · by_cases h1 : cpe = "" <;> by_cases h2 : purl = "" <;> by_cases h3 : Str.hasPrefix cpe "cpe:2.3" = true <;>
      simp [h1, h2, h3, List.lookup]
  · by_cases h1 : cpe = "" <;> by_cases h2 : purl = "" <;> by_cases h3 : Str.hasPrefix cpe "cpe:2.3" = true <;>
      simp [h1, h2, h3, List.lookup]

/-- licence list: the first non-empty entry comes back, alone (CycloneDX carries the list, the
    reader stops at the first usable entry: known finding KF-C02-licence-truncation); so lists of
    at most one licence are preserved exactly -/
theorem node_licenses_first (v : Nat) (n : Node) :
    (rtNode v n).attr "Licenses" = some (.strs (match (Spdx.Node.strs n "Licenses").find? (· ≠ "") with
      | some l => [l] | none => [])) := by
  rw [rtNode_attr v n _ .strs (by simp [Schema.nodeAttrs])]
  simp only [compAttr, nodeToComponent, convComp]
  simp only [if_false, if_true, String.reduceEq]
  congr 2
  cases hl : Spdx.Node.strs n "Licenses" with
  | nil => simp [licenseList]
  | cons l ls =>
    simp only [licenseList]
    generalize (l :: ls) = L
    induction L with
    | nil => simp
    | cons a as ih =>
      simp only [List.map_cons, List.find?_cons]
      by_cases ha : a = ""
      · simp [ha, licenseID]
        simpa [licenseID] using ih
      · simp [ha, licenseID]

theorem node_single_license_preserved (v : Nat) (n : Node) (l : String) (hl : l ≠ "")
    (h : Spdx.Node.strs n "Licenses" = [l]) : (rtNode v n).attr "Licenses" = some (.strs [l]) := by
  rw [node_licenses_first, h]; simp [hl]

/-- external references: one per reference, in order, with URL and comment verbatim, the type
    through the two tables and the version conversion, the hashes through the hash tables -/
theorem node_references (v : Nat) (n : Node) :
    (rtNode v n).attr "ExternalReferences" = some (.refs ((Spdx.Node.refs n "ExternalReferences").map (fun r =>
      ({ url := r.url, comment := r.comment, typ := refTypeIn (convRef v { typ := refTypeOut r.typ }).typ,
         hashes := (hashesOut r.hashes).foldl (fun m h => Spdx.mapStore m (hashIn h.algo) h.value) [] } : ExtRef)))) := by
  rw [rtNode_attr v n _ .refs (by simp [Schema.nodeAttrs])]
  simp only [compAttr, nodeToComponent, convComp]
  simp [compRefs, convRef, List.map_map, Function.comp_def]

/-- a reference of a type every version has, with hashes over the CycloneDX algorithms, comes
    back with the same type, URL, comment and hash entries -/
theorem reference_preserved (v : Nat) (r : ExtRef) (ht : r.typ ∈ refTypesAll)
    (hk : ∀ kv ∈ r.hashes, kv.1 ∈ cdxHashes) (hnd : (r.hashes.map (·.1)).Nodup) :
    ({ url := r.url, comment := r.comment, typ := refTypeIn (convRef v { typ := refTypeOut r.typ }).typ,
       hashes := (hashesOut r.hashes).foldl (fun m h => Spdx.mapStore m (hashIn h.algo) h.value) [] } : ExtRef) =
    { r with authority := "", hashes := sortedByKey r.hashes } := by
  rw [reftypes_roundtrip_all v r.typ ht, refHashes_hashesOut r.hashes hk hnd]

/-! ### the node set and the nodes of the round trip -/

/-- **the same node set**: on containment forests the round trip returns exactly the identifiers
    of the document, each once -/
theorem roundtrip_same_node_set (v : Nat) (d : Document) (md : Metadata) (nl : NodeList) (root : String) (rootNode : Node)
    (lcs : List Lifecycle) (p1 : Pass1) (ht : String → Nat)
    (hmd : d.metadata = some md) (hnl : d.nodeList = some nl) (hroots : nl.roots = [root])
    (hroot : nl.getNodeByID root = some rootNode) (hrid : rootNode.id = root)
    (hlc : serCDX.mapLifecycles md.docTypes = .ok lcs)
    (hp1 : pass1 (fun id => (dictOf nl.nodes).any (·.1 = id)) nl.edges = .ok p1)
    (F : Forest (childrenOf p1) ht (fun x => ((dictOf nl.nodes).lookup x).isSome = true) [root])
    (hht : ∀ x, ht x < (dictOf nl.nodes).length + 2)
    (hids : ∀ x, ((dictOf nl.nodes).lookup x).isSome = true → x ≠ "" ∧ isAutoRef x = false) :
    ∃ (d' : Document) (nl' : NodeList), rtCDX v d = .ok d' ∧ d'.nodeList = some nl' ∧ nl'.ids.Nodup ∧
      ∀ x, x ∈ nl'.ids ↔ x ∈ nl.ids := by
  obtain ⟨placed, d', nl', hpl, h1, h2, _, h4, h5, _⟩ :=
    roundtrip_forest_closed v d md nl root rootNode lcs p1 ht hmd hnl hroots hroot hrid hlc hp1 F hht hids
  refine ⟨d', nl', h1, h2, h4, ?_⟩
  intro x
  have hDroot : ((dictOf nl.nodes).lookup root).isSome = true :=
    (dictOf_known nl.nodes root).mpr (List.mem_map.mpr ⟨rootNode, by
      unfold NodeList.getNodeByID at hroot
      exact List.mem_of_find?_eq_some hroot, hrid⟩)
  rw [h5, forest_preorder_covers (childrenOf p1) ht root (dictOf nl.nodes) hDroot F _ hht placed hpl x]
  exact dictOf_known nl.nodes x

/-- **every node that comes back is the image of the node with its identifier**: with unique
    identifiers, each node of the result is either the root component read back (the root node,
    named after the document when it has no name of its own) or `rtNode v n` for the node `n` of
    the document with the same identifier — so the per-attribute theorems above apply to it,
    wherever it is nested and in whatever order the edges were stored -/
theorem roundtrip_nodes (v : Nat) (d : Document) (md : Metadata) (nl : NodeList) (root : String) (rootNode : Node)
    (lcs : List Lifecycle) (p1 : Pass1) (ht : String → Nat)
    (hmd : d.metadata = some md) (hnl : d.nodeList = some nl) (hroots : nl.roots = [root])
    (hroot : nl.getNodeByID root = some rootNode) (hrid : rootNode.id = root)
    (hlc : serCDX.mapLifecycles md.docTypes = .ok lcs)
    (hp1 : pass1 (fun id => (dictOf nl.nodes).any (·.1 = id)) nl.edges = .ok p1)
    (F : Forest (childrenOf p1) ht (fun x => ((dictOf nl.nodes).lookup x).isSome = true) [root])
    (hht : ∀ x, ht x < (dictOf nl.nodes).length + 2)
    (hids : ∀ x, ((dictOf nl.nodes).lookup x).isSome = true → x ≠ "" ∧ isAutoRef x = false)
    (hnd : nl.ids.Nodup) :
    ∃ (d' : Document) (nl' : NodeList), rtCDX v d = .ok d' ∧ d'.nodeList = some nl' ∧
      ∀ n' ∈ nl'.nodes,
        n' = componentToNode (convComp v (if md.name ≠ "" ∧ (nodeToComponent rootNode).name = ""
          then (nodeToComponent rootNode).withName md.name else nodeToComponent rootNode)) 0 ∨
        ∃ n ∈ nl.nodes, n' = rtNode v n ∧ n'.id = n.id := by
  obtain ⟨placed, hpl, h⟩ :=
    rtCDX_forest_nodes v d md nl root rootNode lcs p1 ht hmd hnl hroots hroot hrid hlc hp1 F hht hids
  have hnodup := forest_preorder_nodup (childrenOf p1) ht root (dictOf nl.nodes) (dictOf_keys_nodup nl.nodes) F
    ((dictOf nl.nodes).length + 2) hht placed hpl
  obtain ⟨d', nl', h1, h2, h3⟩ := h hnodup
  refine ⟨d', nl', h1, h2, ?_⟩
  intro n' hn'
  rw [h3] at hn'
  rcases List.mem_cons.mp hn' with e | e
  · exact Or.inl e
  · right
    obtain ⟨x, hx, rfl⟩ := List.mem_map.mp e
    -- x is a known identifier
    have hDx : ((dictOf nl.nodes).lookup x).isSome = true := by
      have hDroot : ((dictOf nl.nodes).lookup root).isSome = true :=
        (dictOf_known nl.nodes root).mpr (List.mem_map.mpr ⟨rootNode, by
          unfold NodeList.getNodeByID at hroot
          exact List.mem_of_find?_eq_some hroot, hrid⟩)
      exact (forest_preorder_covers (childrenOf p1) ht root (dictOf nl.nodes) hDroot F _ hht placed hpl x).mp
        (List.mem_cons_of_mem _ hx)
    obtain ⟨n, hn, hnx⟩ := List.mem_map.mp ((dictOf_known nl.nodes x).mp hDx)
    refine ⟨n, hn, ?_, ?_⟩
    · show _ = componentToNode (convComp v (nodeToComponent n)) 0
      rw [← comp0_of_mem nl.nodes hnd n hn, hnx]
    · have : componentToNode (convComp v (comp0 (dictOf nl.nodes) x)) 0 = rtNode v n := by
        show _ = componentToNode (convComp v (nodeToComponent n)) 0
        rw [← comp0_of_mem nl.nodes hnd n hn, hnx]
      rw [this, rtNode_id v n (by rw [hnx]; exact (hids x hDx).1)]

end Protobom.C02

namespace Protobom.C02
open Protobom Protobom.Cdx Gen

/-! ### a second pass changes nothing further -/

/-- for a node of the round-trip class (non-empty identifier, at most one licence, hashes over the
    CycloneDX algorithms, references of types every version has) the node that comes back from
    CycloneDX 1.4 or 1.5 is a fixpoint of the round trip: every attribute, kind and identifier
    included, is the same after a second write-then-read -/
theorem second_pass_changes_nothing (v : Nat) (hv : v = 4 ∨ v = 5) (n : Node) (c : CdxNode n) :
    rtNode v (rtNode v n) = rtNode v n := second_pass_node v hv n c

/-- and what comes back is again in the class, so the same holds for every further pass -/
theorem class_closed_under_pass (v : Nat) (n : Node) (c : CdxNode n) : CdxNode (rtNode v n) := rtNode_class v n c

/-- without the licence bound the fixpoint fails, in the model as in the code (the known finding):
    two licences come back as one, and the concluded-licence text changes on the second pass -/
example :
    let n : Node := { id := "a", typ := 0, attrs := Schema.nodeAttrs.map (fun fk =>
      if fk.1 = "Licenses" then .strs ["MIT", "ISC"] else fk.2.zero) }
    Spdx.Node.str (rtNode 5 (rtNode 5 n)) "LicenseConcluded" ≠ Spdx.Node.str (rtNode 5 n) "LicenseConcluded" := by decide

/-- non-vacuity: a node with a name, a hash, a purl and one licence is in the class -/
example : CdxNode { id := "a", typ := 0, attrs := Schema.nodeAttrs.map (fun fk =>
      if fk.1 = "Licenses" then .strs ["MIT"] else if fk.1 = "Hashes" then .imap [(3, "aa")]
      else if fk.1 = "Name" then .str "x" else fk.2.zero) } := by
  refine ⟨by decide, by decide, by decide, by decide, by decide⟩

end Protobom.C02
