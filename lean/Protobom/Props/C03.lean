/-
  C03 — Translation never silently drops or invents nodes, edges or references.
  Property theorems only (serializer models; decoding the written bytes independently of
  protobom's readers is the Go-side oracle of the streams `spdx` and `cdx`). CycloneDX: every node
  is emitted, on forests exactly once (`cdx_forest_each_node_exactly_once`), containment is nesting,
  dependency entries name known nodes only (`cdx_no_dangling_dependency`). Identity attributes across
  a change of format (`spdx_then_cdx_identity`, `cdx_then_spdx_identity`): a package node read from
  one format and written in the other keeps identifier, name, version, the hashes and the package
  identifiers both formats support.
-/
import Protobom.Proofs.Spdx
import Protobom.Proofs.Cdx
import Protobom.Proofs.Nest
import Protobom.Proofs.NestNodes
import Protobom.Proofs.CrossFormat

namespace Protobom.C03
open Protobom Gen

/-! ### SPDX: one element per node, one relationship per edge target, nothing else -/

/-- every node is emitted: exactly once (as a package or as a file) when its kind is PACKAGE or FILE -/
theorem spdx_elements (d : Document) (md : Metadata) (nl : NodeList) (s : Spdx.Doc)
    (hmd : d.metadata = some md) (hnl : d.nodeList = some nl) (hs : Spdx.serSPDX d = .ok s)
    (hk : ∀ n ∈ nl.nodes, n.typ = 0 ∨ n.typ = 1) :
    (s.packages.map (·.id) ++ s.files.map (·.id)).Perm nl.ids := by
  unfold Spdx.serSPDX at hs
  rw [hmd, hnl] at hs
  simp only [Outcome.ok.injEq] at hs
  subst hs
  simp only [List.map_map, NodeList.ids]
  have h1 : ((nl.nodes.filter (·.typ ≠ 1)).map (Spdx.Package.id ∘ Spdx.packageOf)) =
      (nl.nodes.filter (·.typ ≠ 1)).map (·.id) := by
    apply List.map_congr_left; intro n _; rfl
  have h2 : ((nl.nodes.filter (·.typ ≠ 0)).map (Spdx.File.id ∘ Spdx.fileOf)) =
      (nl.nodes.filter (·.typ ≠ 0)).map (·.id) := by
    apply List.map_congr_left; intro n _; rfl
  rw [h1, h2, ← List.map_append]
  apply List.Perm.map
  have : nl.nodes.filter (·.typ ≠ 0) = nl.nodes.filter (fun n => !decide (n.typ ≠ 1)) := by
    apply List.filter_congr
    intro n hn
    rcases hk n hn with h0 | h0 <;> simp [h0]
  rw [this]
  exact List.filter_append_perm _ _

/-- the relationships are exactly: one per (edge, target), plus DOCUMENT DESCRIBES root -/
theorem spdx_relationships (nl : NodeList) (r : Spdx.Rel) :
    r ∈ Spdx.relsOf nl ↔
      (∃ e ∈ nl.edges, ∃ x ∈ e.tos, r = { a := e.src, rel := Spdx.edgeToSPDX2 e.ty, b := x }) ∨
      (∃ x ∈ nl.roots, r = { a := "DOCUMENT", rel := "DESCRIBES", b := x }) := by
  rw [Spdx.relsOf_eq, List.mem_append]
  apply or_congr
  · simp only [Spdx.edgeRels, List.mem_flatMap, List.mem_map]
    constructor
    · rintro ⟨e, he, x, hx, rfl⟩; exact ⟨e, he, x, hx, rfl⟩
    · rintro ⟨e, he, x, hx, rfl⟩; exact ⟨e, he, x, hx, rfl⟩
  · simp only [Spdx.rootRels, List.mem_map]
    constructor
    · rintro ⟨x, hx, rfl⟩; exact ⟨x, hx, rfl⟩
    · rintro ⟨x, hx, rfl⟩; exact ⟨x, hx, rfl⟩

/-- in a well-formed document no relationship refers to an element that is not emitted -/
theorem spdx_no_dangling (nl : NodeList) (hwf : nl.WF) (r : Spdx.Rel) (hr : r ∈ Spdx.relsOf nl) :
    (r.a = "DOCUMENT" ∨ r.a ∈ nl.ids) ∧ r.b ∈ nl.ids := by
  rcases (spdx_relationships nl r).mp hr with ⟨e, he, x, hx, rfl⟩ | ⟨x, hx, rfl⟩
  · exact ⟨Or.inr (hwf.src e he), hwf.dst e he x hx⟩
  · exact ⟨Or.inl rfl, hwf.roots x hx⟩

/-! ### CycloneDX: the first pass keeps every dependency and containment pair -/

/-- the dependency entries are exactly one per dependsOn edge, with its targets de-duplicated -/
theorem cdx_dependency_targets (ts : List String) (known : String → Bool) (hk : ∀ t ∈ ts, known t = true) :
    ∃ r, ts.foldl (fun (a : Option (List String)) t =>
        a.bind fun ts => if t ∈ ts then some ts else if known t then some (ts ++ [t]) else none) (some []) = some r ∧
      (∀ x, x ∈ r ↔ x ∈ ts) ∧ r.Nodup := by
  suffices H : ∀ (acc : List String), acc.Nodup → ∃ r, ts.foldl (fun (a : Option (List String)) t =>
        a.bind fun ts => if t ∈ ts then some ts else if known t then some (ts ++ [t]) else none) (some acc) = some r ∧
      (∀ x, x ∈ r ↔ x ∈ acc ∨ x ∈ ts) ∧ r.Nodup by
    obtain ⟨r, h1, h2, h3⟩ := H [] List.nodup_nil
    exact ⟨r, h1, fun x => by simpa using h2 x, h3⟩
  induction ts with
  | nil => intro acc hacc; exact ⟨acc, rfl, fun x => by simp, hacc⟩
  | cons t ts ih =>
    intro acc hacc
    simp only [List.foldl_cons, Option.bind]
    by_cases ht : t ∈ acc
    · simp only [ht, if_true]
      obtain ⟨r, h1, h2, h3⟩ := ih (fun x hx => hk x (List.mem_cons_of_mem _ hx)) acc hacc
      refine ⟨r, h1, fun x => ?_, h3⟩
      rw [h2 x]
      constructor
      · rintro (h | h)
        · exact Or.inl h
        · exact Or.inr (List.mem_cons_of_mem _ h)
      · rintro (h | h)
        · exact Or.inl h
        · cases h with
          | head => exact Or.inl ht
          | tail _ h' => exact Or.inr h'
    · simp only [ht, if_false, hk t List.mem_cons_self, if_true]
      have hnd : (acc ++ [t]).Nodup := by
        rw [List.nodup_append]
        exact ⟨hacc, by simp, fun a ha b hb hab => by simp at hb; subst hb; subst hab; exact ht ha⟩
      obtain ⟨r, h1, h2, h3⟩ := ih (fun x hx => hk x (List.mem_cons_of_mem _ hx)) (acc ++ [t]) hnd
      refine ⟨r, h1, fun x => ?_, h3⟩
      rw [h2 x]
      simp only [List.mem_append, List.mem_singleton, List.mem_cons, List.not_mem_nil, or_false]
      constructor
      · rintro ((h | h) | h)
        · exact Or.inl h
        · exact Or.inr (Or.inl h)
        · exact Or.inr (Or.inr h)
      · rintro (h | h | h)
        · exact Or.inl (Or.inl h)
        · exact Or.inl (Or.inr h)
        · exact Or.inr h

/-! ### CycloneDX: no node is dropped from the component forest -/

/-- on a containment forest with one root the serializer emits every node: the root as the metadata
    component (`serCDX_forest`), and every other known node, with its complete subtree, inside the
    complete subtree of a top-level component — the top-level components being exactly the nodes
    that are neither the root nor contained in a non-root node. (Stated before `clearAutoRefs`
    blanks generated references, which is done on purpose.) -/
theorem cdx_every_node_emitted (children : String → List String) (c0 : String → Cdx.Component) (ht : String → Nat)
    (D : String → Prop) (root : String) (F : Cdx.Forest children ht D [root]) (bound : Nat) (hb : ∀ x, ht x < bound)
    (x : String) (hD : D x) (hx : x ≠ root) :
    ∃ t, D t ∧ ¬ (t = root ∨ ∃ p, p ≠ root ∧ D p ∧ t ∈ children p) ∧
      Cdx.Sub (Cdx.T children c0 ht x) (Cdx.T children c0 ht t) :=
  Cdx.every_node_under_a_top children c0 ht D root F bound hb
    (fun y => y = root ∨ ∃ p, p ≠ root ∧ D p ∧ y ∈ children p) (fun _ => Iff.rfl) bound x (by omega) hD hx

/-- and containment is expressed as nesting: the component of a node has, as its nested
    components, exactly the complete subtrees of the nodes it contains (in the order the first pass
    recorded them) -/
theorem cdx_containment_is_nesting (children : String → List String) (c0 : String → Cdx.Component) (ht : String → Nat)
    (hlt : ∀ id t, t ∈ children id → ht t < ht id) (hk : ∀ x, (c0 x).kids = []) (x : String) :
    (Cdx.T children c0 ht x).kids = (children x).map (Cdx.T children c0 ht) := by
  rw [Cdx.T_unfold children c0 ht hlt x, Cdx.kids_withKids, hk x, List.nil_append]

end Protobom.C03

namespace Protobom.C03
open Protobom Gen

/-! ### CycloneDX: exactly once on forests, and no dangling dependency -/

/-- **every node exactly once when containment is a forest**: the references of everything the
    CycloneDX serializer emits for a one-rooted containment forest — the metadata component and the
    component forest with all nested components — are the identifiers of the document, each once -/
theorem cdx_forest_each_node_exactly_once (d : Document) (md : Metadata) (nl : NodeList) (root : String) (rootNode : Node)
    (lcs : List Cdx.Lifecycle) (p1 : Cdx.Pass1) (ht : String → Nat)
    (hmd : d.metadata = some md) (hnl : d.nodeList = some nl) (hroots : nl.roots = [root])
    (hroot : nl.getNodeByID root = some rootNode) (hrid : rootNode.id = root)
    (hlc : Cdx.serCDX.mapLifecycles md.docTypes = .ok lcs)
    (hp1 : Cdx.pass1 (fun id => (Cdx.dictOf nl.nodes).any (·.1 = id)) nl.edges = .ok p1)
    (F : Cdx.Forest (Cdx.childrenOf p1) ht (fun x => ((Cdx.dictOf nl.nodes).lookup x).isSome = true) [root])
    (hht : ∀ x, ht x < (Cdx.dictOf nl.nodes).length + 2)
    (hids : ∀ x, ((Cdx.dictOf nl.nodes).lookup x).isSome = true → Cdx.isAutoRef x = false) :
    ∃ (b : Cdx.Bom) (rootC : Cdx.Component), Cdx.serCDX d = .ok b ∧ b.metaComponent = some rootC ∧
      (rootC.refs ++ Cdx.refsL b.components).Nodup ∧
      ∀ x, x ∈ rootC.refs ++ Cdx.refsL b.components ↔ x ∈ nl.ids :=
  Cdx.serCDX_forest_refs d md nl root rootNode lcs p1 ht hmd hnl hroots hroot hrid hlc hp1 F hht hids

/-- **no reference to an element that was not emitted**: every dependency entry the serializer
    writes (whenever it succeeds, for any document) names known nodes only — as its `ref` and in
    its `dependsOn` list -/
theorem cdx_no_dangling_dependency (known : String → Bool) (edges : List Edge) (p1 : Cdx.Pass1)
    (h : Cdx.pass1 known edges = .ok p1) : ∀ st ∈ p1.deps, known st.1 = true ∧ ∀ t ∈ st.2, known t = true :=
  Cdx.pass1_deps_known known edges p1 h

end Protobom.C03

namespace Protobom.C03
open Protobom Gen

/-! ### identity attributes of documents obtained by parsing the other format -/

/-- **SPDX 2.3 first, CycloneDX 1.`v` second**: a package node that was written as SPDX and read
    back, then written as CycloneDX and read back, has the identifier, the name and the version it
    started with (`0.0.0` is cyclonedx-go's text for a missing version below 1.4), its hash map over
    the algorithms both formats have entry for entry, and its purl and CPE under their keys -/
theorem spdx_then_cdx_identity (v : Nat) (n : Node) (hid : n.id ≠ "")
    (hs : ∀ kv ∈ n.hashes, kv.1 ∈ Spdx.spdxHashes) (hc : ∀ kv ∈ n.hashes, kv.1 ∈ Cdx.cdxHashes)
    (hnd : (n.hashes.map (·.1)).Nodup)
    (hr : ∀ e ∈ Spdx.Node.refs n "ExternalReferences", e.typ ∈ Spdx.spdxRefTypes ∧ e.url ≠ "")
    (hk : ∀ kv ∈ n.identifiers, kv.1 ∈ [1, 2, 3, 4]) (hnd' : (n.identifiers.map (·.1)).Nodup) :
    let m := Cdx.rtNode v (Spdx.rtPkg n)
    m.id = n.id ∧
    Spdx.Node.str m "Name" = Spdx.Node.str n "Name" ∧
    Spdx.Node.str m "Version" = (if v < 4 ∧ Spdx.Node.str n "Version" = "" then "0.0.0" else Spdx.Node.str n "Version") ∧
    m.hashes = sortedByKey n.hashes ∧ (sortedByKey n.hashes).Perm n.hashes ∧
    m.identifiers = Cdx.compIds ((n.identifiers.lookup 1).getD "")
      ((n.identifiers.lookup 3).getD ((n.identifiers.lookup 2).getD "")) := by
  obtain ⟨h1, h2, h3⟩ := Cross.spdx_then_cdx_scalars v n hid
  exact ⟨h1, h2, h3, Cross.spdx_then_cdx_hashes v n hs hc hnd, sortedByKey_perm_self n.hashes hnd,
    Cross.spdx_then_cdx_identifiers v n hr hk hnd'⟩

/-- **CycloneDX 1.`v` first, SPDX 2.3 second**: identifier, name, version and the hash map -/
theorem cdx_then_spdx_identity (v : Nat) (n : Node) (hid : n.id ≠ "")
    (hs : ∀ kv ∈ n.hashes, kv.1 ∈ Spdx.spdxHashes) (hc : ∀ kv ∈ n.hashes, kv.1 ∈ Cdx.cdxHashes)
    (hnd : (n.hashes.map (·.1)).Nodup) :
    let m := Spdx.rtPkg (Cdx.rtNode v n)
    m.id = n.id ∧
    Spdx.Node.str m "Name" = Spdx.Node.str n "Name" ∧
    Spdx.Node.str m "Version" = (if v < 4 ∧ Spdx.Node.str n "Version" = "" then "0.0.0" else Spdx.Node.str n "Version") ∧
    m.hashes = sortedByKey n.hashes := by
  obtain ⟨h1, h2, h3⟩ := Cross.cdx_then_spdx_scalars v n hid
  exact ⟨h1, h2, h3, Cross.cdx_then_spdx_hashes v n hs hc hnd⟩

/-- sorting a key-unique map by key does not change what a key is bound to: the purl / CPE /
    hash value a consumer looks up in the map that came back is the one that was written -/
theorem lookup_after_roundtrip (m : List (Int × String)) (hnd : (m.map (·.1)).Nodup) (k : Int) :
    (sortedByKey m).lookup k = m.lookup k := lookup_sortedByKey m hnd k

/-- non-vacuity: a node with two shared hash algorithms, a purl and a CPE 2.3 meets the premises -/
def exCross : Node := { id := "pkg-a", typ := 0, attrs := Schema.nodeAttrs.map (fun fk =>
  if fk.1 = "Hashes" then Val.imap [(3, "aa"), (1, "bb")]
  else if fk.1 = "Identifiers" then Val.imap [(3, "cpe:2.3:a:b:c"), (1, "pkg:npm/a@1")]
  else if fk.1 = "Name" then Val.str "a" else fk.2.zero) }

example : exCross.id ≠ "" ∧ (∀ kv ∈ exCross.hashes, kv.1 ∈ Spdx.spdxHashes) ∧ (∀ kv ∈ exCross.hashes, kv.1 ∈ Cdx.cdxHashes) ∧
    (exCross.hashes.map (·.1)).Nodup ∧ (∀ e ∈ Spdx.Node.refs exCross "ExternalReferences", e.typ ∈ Spdx.spdxRefTypes ∧ e.url ≠ "") ∧
    (∀ kv ∈ exCross.identifiers, kv.1 ∈ [1, 2, 3, 4]) ∧ (exCross.identifiers.map (·.1)).Nodup := by decide

end Protobom.C03
