/-
  C04 — Parsers are total on untrusted input.
  Theorems about `Model/Parse.lean`: for every decoded structure, with any set of nil pointers the
  decoders can leave, the conversion is an `ok` with metadata and node list or an `err`, never a
  panic — given the nil guards that the extractor finds in the current source.
-/
import Protobom.Model.Parse
import Protobom.Gen.Skel
import Protobom.Expect.Skel

namespace Protobom.C04
open Protobom Protobom.Parse Gen

/-! ### tie to the source: every dereference site is guarded in the current tree -/

theorem cdx_sites_guarded : ∀ e ∈ cdxSites, ∀ s ∈ e.2, guardPresent s = true := by decide
theorem spdx_sites_guarded : ∀ e ∈ spdxSites, ∀ s ∈ e.2, guardPresent s = true := by decide
theorem recover_guarded : recoverSites.all guardPresent = true := by decide

theorem skel_ParseStreamWithOptions :
    Skel.reader_Reader_ParseStreamWithOptions = Expect.Skel.reader_Reader_ParseStreamWithOptions := by decide
theorem skel_readSPDXJSON :
    Skel.unserializers__readSPDXJSON = Expect.Skel.unserializers__readSPDXJSON := by decide

/-! ### no nil set reaches an unguarded dereference -/

theorem lookup_mem {β} (tbl : List (String × β)) (k : String) (v : β) (h : tbl.lookup k = some v) :
    (k, v) ∈ tbl := by
  induction tbl with
  | nil => cases h
  | cons x xs ih =>
    obtain ⟨xk, xv⟩ := x
    simp only [List.lookup_cons] at h
    by_cases e : (k == xk) = true
    · simp only [e] at h
      cases h
      have : k = xk := by simpa using e
      rw [this]; exact List.mem_cons_self
    · have e' : (k == xk) = false := by simpa using e
      simp only [e'] at h
      exact List.mem_cons_of_mem _ (ih h)

theorem unguarded_none (tbl : List (String × List Site))
    (hg : ∀ e ∈ tbl, ∀ s ∈ e.2, guardPresent s = true) (nils : List String) :
    unguarded tbl nils = none := by
  unfold unguarded
  rw [List.find?_eq_none]
  intro s hs
  rw [List.mem_flatMap] at hs
  obtain ⟨n, _, hs⟩ := hs
  cases hl : tbl.lookup n with
  | none => rw [hl] at hs; cases hs
  | some ss =>
    rw [hl] at hs
    have := hg _ (lookup_mem tbl n ss hl) s hs
    simp [this]

/-- CycloneDX conversion: for every decoded document and every set of nil pointers the result
    is a document with metadata and node list -/
theorem unserCDXn_total (nils : List String) (b : Cdx.Bom) :
    ∃ d, unserCDXn nils b = .ok d ∧ d.metadata.isSome = true ∧ d.nodeList.isSome = true := by
  unfold unserCDXn
  rw [unguarded_none cdxSites cdx_sites_guarded nils]
  exact ⟨_, rfl, rfl, rfl⟩

theorem unserSPDXn_total (nils : List String) (d0 : Spdx.Doc) :
    ∃ d, unserSPDXn nils d0 = .ok d ∧ d.metadata.isSome = true ∧ d.nodeList.isSome = true := by
  unfold unserSPDXn
  rw [unguarded_none spdxSites spdx_sites_guarded nils]
  exact ⟨_, rfl, rfl, rfl⟩

/-- "exactly one of a complete document or an error" -/
def Total (o : Outcome Document) : Prop :=
  o = .err ∨ ∃ d, o = .ok d ∧ d.metadata.isSome = true ∧ d.nodeList.isSome = true

theorem parseCDX_total (c : Decoded Cdx.Bom) (hc : ∀ (h : c = .panic), False) : Total (parseCDX c) := by
  cases c with
  | ok nils b => exact Or.inr (unserCDXn_total nils b)
  | err => exact Or.inl rfl
  | panic => exact absurd rfl (fun h => hc h)

/-- SPDX: even a panic inside the third-party decoder becomes an error -/
theorem parseSPDX_total (s : Decoded Spdx.Doc) : Total (parseSPDX s) := by
  cases s with
  | ok nils d => exact Or.inr (unserSPDXn_total nils d)
  | err => exact Or.inl rfl
  | panic =>
    left
    unfold parseSPDX
    rw [recover_guarded]; rfl

theorem sniff_ok_or_err (i : Sniff.Input) :
    (∃ f, (Sniff.sniffReader i).1 = .ok f) ∨ (Sniff.sniffReader i).1 = .err := by
  unfold Sniff.sniffReader
  split
  · split
    · exact Or.inl ⟨_, rfl⟩
    · exact Or.inr rfl
  · simp only
    split
    · exact Or.inl ⟨_, rfl⟩
    · exact Or.inr rfl

/-- the whole parse path: detection, dispatch, decoding, conversion. The only assumption is that
    cyclonedx-go's decoder itself does not panic (it runs outside any recover). -/
theorem parse_total (i : Sniff.Input) (explicit : Option Sniff.Format) (c : Decoded Cdx.Bom)
    (s : Decoded Spdx.Doc) (hc : ∀ (h : c = .panic), False) : Total (parse i explicit c s) := by
  have hdet : ∀ f, Total (match driverOf f with
      | some "cdx" => parseCDX c
      | some _ => parseSPDX s
      | none => Outcome.err) := by
    intro f
    split
    · exact parseCDX_total c hc
    · exact parseSPDX_total s
    · exact Or.inl rfl
  have hsniff : Total ((Sniff.sniffReader i).1.bind fun f =>
      match driverOf f with
      | some "cdx" => parseCDX c
      | some _ => parseSPDX s
      | none => Outcome.err) := by
    rcases sniff_ok_or_err i with ⟨f, hf⟩ | hf
    · rw [hf]; exact hdet f
    · rw [hf]; exact Or.inl rfl
  unfold parse
  simp only
  cases explicit with
  | none => exact hsniff
  | some f =>
    simp only
    by_cases hf : f = ""
    · rw [if_pos hf]; exact hsniff
    · rw [if_neg hf]; exact hdet f

/-- with an explicit, registered format the outcome does not depend on the detection input -/
theorem parse_explicit_ignores_input (i i' : Sniff.Input) (f : Sniff.Format) (hf : f ≠ "")
    (c : Decoded Cdx.Bom) (s : Decoded Spdx.Doc) : parse i (some f) c s = parse i' (some f) c s := by
  unfold parse
  simp only [if_neg hf]

/-- auto-detection and the explicit statement of the detected format agree -/
theorem parse_auto_eq_explicit (i : Sniff.Input) (f : Sniff.Format) (hf : f ≠ "")
    (hs : (Sniff.sniffReader i).1 = .ok f) (c : Decoded Cdx.Bom) (s : Decoded Spdx.Doc) :
    parse i none c s = parse i (some f) c s := by
  unfold parse
  simp only [if_neg hf, hs]

/-- non-vacuity: a guard that is missing does make the model panic -/
example : guardPresent ⟨"unserializers.CDX.componentToNode", "c.Supplier"⟩ = false := by decide
example : (parse ⟨some ⟨"CycloneDX", "1.4", ""⟩, []⟩ none (.ok ["BOM.Metadata", "Component.Licenses"] {}) .err).isPanic = false := by decide

end Protobom.C04
