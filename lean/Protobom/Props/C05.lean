/-
  C05 — Parsed graphs are well-formed, deterministic and layout-independent.
  Property theorems about the parser models (`Model/Cdx.lean`, `Model/Spdx.lean`, `Model/Parse.lean`)
  and the identifier generator (`Model/Ident.lean`).
-/
import Protobom.Proofs.Parsed
import Protobom.Proofs.Ident
import Protobom.Model.Parse

namespace Protobom.C05
open Protobom Gen

/-! ### CycloneDX: closure and identifiers, for every input -/

/-- every parsed CycloneDX document is a closed graph: identifiers pairwise distinct, every edge
    endpoint and every root element names a parsed node — for arbitrary nesting, duplicate or
    missing references, with or without a metadata component -/
theorem cdx_closed (b : Cdx.Bom) : ∃ nl, (Cdx.unserCDX b).nodeList = some nl ∧ nl.WF :=
  unserCDX_wf b

/-- identifiers are non-empty; each is a (non-empty) reference of the input or the generated
    identifier `protobom-auto--<9 digits>` of a position between 1 and the number of components -/
theorem cdx_ids (b : Cdx.Bom) : ∃ nl, (Cdx.unserCDX b).nodeList = some nl ∧
    ∀ x ∈ nl.ids, x ≠ "" ∧ ((x ∈ bomRefs b) ∨ ∃ k, 0 < k ∧ k ≤ bomSize b ∧ x = Cdx.autoId k) := by
  obtain ⟨nl, h1, h2⟩ := unserCDX_ids b
  refine ⟨nl, h1, fun x hx => ⟨(h2 x hx).ne_empty, ?_⟩⟩
  rcases h2 x hx with ⟨a, _⟩ | h
  · exact Or.inl a
  · exact Or.inr h

/-- identifiers are as unique as the input's: with pairwise distinct non-empty references the parsed
    identifiers are exactly the references, in document order, with the metadata component as the
    sole root and exactly the nesting as containment edges -/
theorem cdx_ids_exact (b : Cdx.Bom) (rootC : Cdx.Component) (hm : b.metaComponent = some rootC)
    (hne : ∀ x ∈ rootC.refs ++ Cdx.refsL b.components, x ≠ "")
    (hnd : (rootC.refs ++ Cdx.refsL b.components).Nodup) :
    ∃ nl, (Cdx.unserCDX b).nodeList = some nl ∧ nl.ids = rootC.refs ++ Cdx.refsL b.components ∧
      nl.roots = [rootC.bomRef] := by
  obtain ⟨nl, h1, h2, h3, _⟩ := Cdx.unserCDX_tree b rootC hm hne hnd
  exact ⟨nl, h1, h2, h3⟩

/-- generated identifiers: distinct positions give distinct identifiers, … -/
theorem generated_unique (j k : Nat) (h : Cdx.autoId j = Cdx.autoId k) : j = k := autoId_inj j k h

/-- … they consist of identifier-safe characters only, … -/
theorem generated_safe (k : Nat) : ∀ c ∈ (Cdx.autoId k).toList, idSafe c = true := autoId_safe k

/-- … and the identifier of a reference-less component depends only on its position in document
    order (one counter tick per component, nested components included) -/
theorem generated_reproducible (c : Cdx.Component) (cc : Nat) :
    (Cdx.compToNL c cc).2 = cc + c.size ∧
    (c.bomRef = "" → (Cdx.componentToNode c (cc + 1)).id = Cdx.autoId (cc + 1)) := by
  refine ⟨compToNL_counter c cc, ?_⟩
  intro h
  rw [componentToNode_assigned]
  cases c with
  | mk r =>
    simp only [Cdx.Component.bomRef] at h
    simp only [assignedId, h, if_true]

/-! ### SPDX: verbatim transfer -/

/-- element identifiers are transferred verbatim and with their multiplicity: the parsed
    identifiers are as unique as the input's -/
theorem spdx_ids (d : Spdx.Doc) : ∃ nl, (Spdx.unserSPDX d).nodeList = some nl ∧
    nl.ids = d.packages.map (·.id) ++ d.files.map (·.id) := unserSPDX_ids d

/-- the input's own references resolve: every relationship that is kept names elements of the document -/
def SpdxRefsResolve (d : Spdx.Doc) : Prop :=
  let ids := d.packages.map (·.id) ++ d.files.map (·.id)
  ∀ r ∈ d.rels, r.a ≠ "" → r.b ≠ "" → r.b ∈ ids ∧ (r.a = "DOCUMENT" ∨ r.a ∈ ids)

/-- then every root element and every edge endpoint names a parsed node -/
theorem spdx_closed (d : Spdx.Doc) (h : SpdxRefsResolve d)
    (hdoc : ∀ r ∈ d.rels, r.a = "DOCUMENT" → Spdx.equalFoldAscii r.rel "DESCRIBES" = true ∨
      "DOCUMENT" ∈ d.packages.map (·.id) ++ d.files.map (·.id)) :
    ∃ nl, (Spdx.unserSPDX d).nodeList = some nl ∧
      (∀ x ∈ nl.roots, x ∈ nl.ids) ∧ (∀ e ∈ nl.edges, e.src ∈ nl.ids ∧ ∀ t ∈ e.tos, t ∈ nl.ids) := by
  obtain ⟨nl, hnl, hids⟩ := unserSPDX_ids d
  refine ⟨nl, hnl, ?_, ?_⟩
  · intro x hx
    rw [hids]
    simp only [Spdx.unserSPDX, Option.some.injEq] at hnl
    subst hnl
    simp only [List.mem_map, List.mem_filter] at hx
    obtain ⟨r, ⟨⟨hr, hne⟩, _⟩, rfl⟩ := hx
    have hne' : r.a ≠ "" ∧ r.b ≠ "" := by simpa using hne
    exact (h r hr hne'.1 hne'.2).1
  · intro e he
    rw [hids]
    simp only [Spdx.unserSPDX, Option.some.injEq] at hnl
    subst hnl
    simp only [List.mem_map, List.mem_filter] at he
    obtain ⟨r, ⟨⟨hr, hne⟩, hroot⟩, rfl⟩ := he
    have hne' : r.a ≠ "" ∧ r.b ≠ "" := by simpa using hne
    have hres := h r hr hne'.1 hne'.2
    refine ⟨?_, ?_⟩
    · rcases hres.2 with hdocu | hin
      · rcases hdoc r hr hdocu with hd | hd
        · exfalso
          simp [hdocu, hd] at hroot
        · simpa [hdocu] using hd
      · exact hin
    · intro t ht
      simp only [List.mem_singleton] at ht
      subst ht; exact hres.1

/-! ### determinism and the format statement -/

/-- the parse path is a function of the decoded value: detection input, explicit format and the two
    third-party views determine the result (this is "parsing the same bytes twice" and "any
    re-encoding of the same JSON value", given that the decoders are layout-independent — which
    stream `parse` checks on every document in four layouts) -/
theorem parse_deterministic (i : Sniff.Input) (e : Option Sniff.Format) (c : Parse.Decoded Cdx.Bom)
    (s : Parse.Decoded Spdx.Doc) (ls : List String) (d : Sniff.Decl) (hd : i.decl = some d) :
    Parse.parse i e c s = Parse.parse ⟨some d, ls⟩ e c s := by
  unfold Parse.parse
  have : (Sniff.sniffReader i).1 = (Sniff.sniffReader ⟨some d, ls⟩).1 := by
    simp only [Sniff.sniffReader, hd]
  rw [this]

/-- parsing with auto-detection equals parsing with the detected format stated explicitly -/
theorem parse_auto_eq_explicit (i : Sniff.Input) (f : Sniff.Format) (hf : f ≠ "")
    (hs : (Sniff.sniffReader i).1 = .ok f) (c : Parse.Decoded Cdx.Bom) (s : Parse.Decoded Spdx.Doc) :
    Parse.parse i none c s = Parse.parse i (some f) c s := by
  unfold Parse.parse
  simp only [if_neg hf, hs]

/-! ### the public identifier generator -/

/-- for arbitrary seed bytes: the identifier is non-empty, … -/
theorem newId_nonempty (seeds : List Ident.Bytes) (uuid : List Char) :
    Ident.newNodeIdentifier seeds uuid ≠ [] :=
  Ident.finish_ne_nil _ uuid (Ident.inv_fold seeds {} Ident.inv_init)

/-- … made of identifier-safe characters only (given that the fallback UUID is), … -/
theorem newId_safe (seeds : List Ident.Bytes) (uuid : List Char) (hu : ∀ c ∈ uuid, idSafe c = true) :
    ∀ c ∈ Ident.newNodeIdentifier seeds uuid, idSafe c = true :=
  Ident.finish_safe _ uuid (Ident.inv_fold seeds {} Ident.inv_init) hu

/-- … and does not depend on the random fallback whenever a usable seed is given -/
theorem newId_deterministic (seeds : List Ident.Bytes) (u1 u2 : List Char) (h : Ident.usable seeds = true) :
    Ident.newNodeIdentifier seeds u1 = Ident.newNodeIdentifier seeds u2 := by
  have hv : (List.foldl Ident.step {} seeds).valid ≠ [] := of_decide_eq_true h
  unfold Ident.newNodeIdentifier Ident.finish
  simp only [if_neg hv]

/-- non-vacuity -/
example : Ident.usable [[97, 47, 98]] = true := by decide
example : String.ofList (Ident.newNodeIdentifier [[97, 117, 116, 111], [97, 47, 98, 195]] []) = "protobom-auto--a-bC195" := by
  decide

end Protobom.C05
