/-
  C06 — Format detection is correct, layout-independent and non-consuming.
  Property theorems about `Model/Sniff.lean`. The input is abstracted through the two third-party
  readers (`encoding/json` into the declaration struct, `bufio.Scanner`), so "any JSON
  re-encoding" is: the same `Decl`, any `lines`.
-/
import Protobom.Model.Sniff
import Protobom.Proofs.Equal
import Protobom.Gen.Skel
import Protobom.Expect.Skel

namespace Protobom.C06
open Protobom Protobom.Sniff Gen

/-- the formats the property names: written and read by protobom and announced by a declaration -/
def roundTripFormats : List Format :=
  ["text/spdx+json;version=2.3", "application/vnd.cyclonedx+json;version=1.3",
   "application/vnd.cyclonedx+json;version=1.4", "application/vnd.cyclonedx+json;version=1.5"]

/-! ### tie to the source: the functions modelled by hand still have the shape they were modelled from -/

theorem skel_SniffReader : Skel.formats_Sniffer_SniffReader = Expect.Skel.formats_Sniffer_SniffReader := by decide
theorem skel_sniff : Skel.formats_Sniffer_sniff = Expect.Skel.formats_Sniffer_sniff := by decide
theorem skel_spdxSniff : Skel.formats_spdxSniff_sniff = Expect.Skel.formats_spdxSniff_sniff := by decide
theorem skel_cdxSniff : Skel.formats_cdxSniff_sniff = Expect.Skel.formats_cdxSniff_sniff := by decide
theorem skel_stateFormat : Skel.formats_sniffState_Format = Expect.Skel.formats_sniffState_Format := by decide
theorem skel_accessors :
    Skel.formats_Format_Version = Expect.Skel.formats_Format_Version ∧
    Skel.formats_Format_Major = Expect.Skel.formats_Format_Major ∧
    Skel.formats_Format_Minor = Expect.Skel.formats_Format_Minor ∧
    Skel.formats_Format_Encoding = Expect.Skel.formats_Format_Encoding ∧
    Skel.formats_Format_Type = Expect.Skel.formats_Format_Type := by decide

/-- the switch defaults of the JSON branch are error returns, the listed cases are not -/
theorem tables_shape :
    Tables.sniffCdxVersion_defaultIsErr = true ∧ Tables.sniffSpdxVersion_defaultIsErr = true ∧
    (∀ r ∈ Tables.sniffCdxVersion_cols, r.2.getLast? = some "nil") ∧
    (∀ r ∈ Tables.sniffSpdxVersion_cols, r.2.getLast? = some "nil") := by decide

/-- the four formats are registered on both sides -/
theorem roundTripFormats_registered :
    ∀ f ∈ roundTripFormats, f ∈ Formats.readerFormats ∧ f ∈ Formats.writerFormats := by decide

/-! ### clause 1: detection of the writer's output -/

/-- the declaration the writer puts into a document of format `f` is detected as exactly `f` -/
theorem detect_written : ∀ f ∈ roundTripFormats,
    ∃ d, declOfFormat f = some d ∧ sniffDecl d = some f := by decide

/-- … whatever the layout: the line view of the bytes does not matter once the declaration decodes -/
theorem detect_layout_independent (d : Decl) (ls ls' : List String) :
    sniffReader ⟨some d, ls⟩ = sniffReader ⟨some d, ls'⟩ := rfl

theorem detect_written_reader (f : Format) (hf : f ∈ roundTripFormats) (d : Decl)
    (hd : declOfFormat f = some d) (ls : List String) :
    (sniffReader ⟨some d, ls⟩).1 = .ok f := by
  have h := detect_written f hf
  obtain ⟨d', hd', hs⟩ := h
  rw [hd] at hd'
  cases hd'
  simp only [sniffReader, hs]

/-- every format registered for reading and writing is detected from its declaration, except the
    CycloneDX versions the sniffer does not list (1.0–1.2: readable only with the format stated) -/
theorem detect_registered : ∀ f ∈ Formats.readerFormats, f ∈ Formats.writerFormats →
    f ∈ roundTripFormats ∨ (typ f = "cyclonedx" ∧ version f ∈ ["1.0", "1.1", "1.2"]) := by decide

/-! ### clause 2: a format is reported only when the declaration says so -/

theorem cdx_rows : ∀ r ∈ Tables.sniffCdxVersion,
    typ r.2 = "cyclonedx" ∧ version r.2 = r.1 ∧ encoding r.2 = "json" ∧
    major r.2 ++ "." ++ minor r.2 = r.1 := by decide

theorem spdx_rows : ∀ r ∈ Tables.sniffSpdxVersion,
    typ r.2 = "spdx" ∧ "SPDX-" ++ version r.2 = r.1 ∧ encoding r.2 = "json" ∧
    major r.2 ++ "." ++ minor r.2 = version r.2 := by decide

/-- JSON branch: the reported format's accessors agree with the decoded declaration -/
theorem detect_sound_json (d : Decl) (f : Format) (h : sniffDecl d = some f) :
    (equalFold d.bomFormat "cyclonedx" = true ∧ typ f = "cyclonedx" ∧ version f = d.specVersion ∧
        encoding f = "json") ∨
    (equalFold d.bomFormat "cyclonedx" = false ∧ typ f = "spdx" ∧
        "SPDX-" ++ version f = d.spdxVersion ∧ encoding f = "json") := by
  unfold sniffDecl at h
  have hc : constOf "CDXFORMAT" = "cyclonedx" := by decide
  rw [hc] at h
  by_cases hb : equalFold d.bomFormat "cyclonedx" = true
  · rw [if_pos hb] at h
    have := cdx_rows _ (mem_of_lookup _ _ _ h)
    exact Or.inl ⟨hb, this.1, this.2.1, this.2.2.1⟩
  · rw [if_neg hb] at h
    have := spdx_rows _ (mem_of_lookup _ _ _ h)
    exact Or.inr ⟨by simpa using hb, this.1, this.2.1, this.2.2.1⟩

/-- a declaration that names neither a listed CycloneDX version nor a listed SPDX version is refused -/
theorem detect_refuses (d : Decl)
    (h1 : equalFold d.bomFormat "cyclonedx" = true → d.specVersion ∉ ["1.3", "1.4", "1.5"])
    (h2 : equalFold d.bomFormat "cyclonedx" = false → d.spdxVersion ∉ ["SPDX-2.2", "SPDX-2.3"]) (ls : List String) :
    (sniffReader ⟨some d, ls⟩).1 = .err := by
  have hc : constOf "CDXFORMAT" = "cyclonedx" := by decide
  cases hs : sniffDecl d with
  | none => simp only [sniffReader, hs]
  | some f =>
    exfalso
    unfold sniffDecl at hs
    rw [hc] at hs
    by_cases hb : equalFold d.bomFormat "cyclonedx" = true
    · rw [if_pos hb] at hs
      have hm := mem_of_lookup _ _ _ hs
      apply h1 hb
      have : ∀ r ∈ Tables.sniffCdxVersion, r.1 ∈ ["1.3", "1.4", "1.5"] := by decide
      exact this _ hm
    · rw [if_neg hb] at hs
      have hm := mem_of_lookup _ _ _ hs
      apply h2 (by simpa using hb)
      have : ∀ r ∈ Tables.sniffSpdxVersion, r.1 ∈ ["SPDX-2.2", "SPDX-2.3"] := by decide
      exact this _ hm

/-! line branch -/

/-- what the saved line-sniffer state can be: empty, or tagged by an earlier `SPDXVersion:` line -/
def StateInv (seen : List String) (st : SniffState) : Prop :=
  st.ver = "" ∧ ((st.typ = "" ∧ st.enc = "") ∨
    (st.typ = "text/spdx" ∧ st.enc = "text" ∧ ∃ l ∈ seen, Str.containsSub l "SPDXVersion:" = true))

theorem find_spec {p : String → Bool} {v : String} (h : spdxVersions.find? p = some v) :
    v ∈ spdxVersions ∧ p v = true := by
  exact ⟨List.mem_of_find?_eq_some h, List.find?_some h⟩

theorem format_nonempty {st : SniffState} (h : st.format ≠ "") :
    st.typ ≠ "" ∧ st.enc ≠ "" ∧ st.ver ≠ "" ∧ st.format = st.typ ++ "+" ++ st.enc ++ ";version=" ++ st.ver := by
  unfold SniffState.format at h ⊢
  by_cases c : st.typ ≠ "" ∧ st.enc ≠ "" ∧ st.ver ≠ ""
  · rw [if_pos c]; exact ⟨c.1, c.2.1, c.2.2, rfl⟩
  · rw [if_neg c] at h; exact absurd rfl h

/-- the three ways a line can carry the version -/
def versionMarkers (v : String) : List String :=
  ["SPDX-" ++ v, "'SPDX-" ++ v ++ "'", "\"SPDX-" ++ v ++ "\""]

/-- what a report from the line branch means: among the lines `P` there is a declaration marker
    and a version marker for the reported version -/
def LineReport (P : String → Prop) (f : Format) : Prop :=
  ∃ v ∈ spdxVersions, f = "text/spdx+text;version=" ++ v ∧
    (∃ l, P l ∧ Str.containsSub l "SPDXVersion:" = true) ∧
    (∃ l, P l ∧ ∃ m ∈ versionMarkers v, Str.containsSub l m = true)

theorem format_tagged (st : SniffState) (v : String) (h1 : st.typ = "text/spdx") (h2 : st.enc = "text")
    (hv : v ∈ spdxVersions) : ({ st with ver := v } : SniffState).format = "text/spdx+text;version=" ++ v := by
  have hne : v ≠ "" := by
    intro e; subst e; revert hv; decide
  unfold SniffState.format
  simp only [h1, h2]
  have c : ("text/spdx" : String) ≠ "" ∧ ("text" : String) ≠ "" ∧ v ≠ "" := ⟨by decide, by decide, hne⟩
  rw [if_pos c]
  have : ("text/spdx" : String) ++ "+" ++ "text" ++ ";version=" = "text/spdx+text;version=" := by decide
  rw [this]

theorem stateInv_mono {seen : List String} {st : SniffState} (l : String) (h : StateInv seen st) :
    StateInv (l :: seen) st := by
  refine ⟨h.1, ?_⟩
  rcases h.2 with h2 | ⟨a, b, l', hl', hc⟩
  · exact Or.inl h2
  · exact Or.inr ⟨a, b, l', List.mem_cons_of_mem _ hl', hc⟩

/-- one line: the saved state keeps the invariant, and a report means `LineReport` -/
theorem sniffLine_spec (seen : List String) (st : SniffState) (line : String) (hinv : StateInv seen st) :
    StateInv (line :: seen) (sniffLine st line).1 ∧
    ((sniffLine st line).2 ≠ "" → LineReport (· ∈ line :: seen) (sniffLine st line).2) := by
  -- the tagged state
  have hst1 : StateInv (line :: seen)
      (if Str.containsSub line "SPDXVersion:" = true then { st with typ := "text/spdx", enc := "text" } else st) := by
    by_cases ht : Str.containsSub line "SPDXVersion:" = true
    · rw [if_pos ht]
      exact ⟨hinv.1, Or.inr ⟨rfl, rfl, line, List.mem_cons_self, ht⟩⟩
    · rw [if_neg ht]; exact stateInv_mono line hinv
  -- a report built from the tagged state with version v
  have report : ∀ (v : String) (m : String), v ∈ spdxVersions → m ∈ versionMarkers v → Str.containsSub line m = true →
      ∀ st1 : SniffState, StateInv (line :: seen) st1 → ({ st1 with ver := v } : SniffState).format ≠ "" →
      LineReport (· ∈ line :: seen) ({ st1 with ver := v } : SniffState).format := by
    intro v m hv hm hc st1 hi hne
    rcases hi.2 with ⟨ht, _⟩ | ⟨ht, he, l', hl', hc'⟩
    · exfalso
      have := (format_nonempty hne).1
      exact this ht
    · rw [format_tagged st1 v ht he hv]
      exact ⟨v, hv, rfl, ⟨l', hl', hc'⟩, ⟨line, List.mem_cons_self, m, hm, hc⟩⟩
  unfold sniffLine
  simp only
  split
  · rename_i v hfind
    by_cases ht : Str.containsSub line "SPDXVersion:" = true
    · rw [if_pos ht] at hfind
      have hs := find_spec hfind
      refine ⟨stateInv_mono line hinv, ?_⟩
      intro hne
      exact report v ("SPDX-" ++ v) hs.1 (by simp [versionMarkers]) hs.2 _ hst1 hne
    · rw [if_neg ht] at hfind; cases hfind
  · split
    · rename_i v hfind
      have hs := find_spec hfind
      refine ⟨stateInv_mono line hinv, ?_⟩
      intro hne
      rcases Bool.or_eq_true _ _ ▸ hs.2 with hq | hq
      · exact report v _ hs.1 (by simp [versionMarkers]) hq _ hst1 hne
      · exact report v _ hs.1 (by simp [versionMarkers]) hq _ hst1 hne
    · refine ⟨hst1, ?_⟩
      intro hne
      exfalso
      exact (format_nonempty hne).2.2.1 hst1.1

theorem sniffLines_spec (ls : List String) : ∀ (seen : List String) (st : SniffState), StateInv seen st →
    sniffLines st ls ≠ "" → LineReport (fun l => l ∈ seen ∨ l ∈ ls) (sniffLines st ls) := by
  induction ls with
  | nil => intro seen st _ h; exact absurd rfl h
  | cons l ls ih =>
    intro seen st hinv h
    have hsp := sniffLine_spec seen st l hinv
    unfold sniffLines at h ⊢
    simp only at h ⊢
    by_cases hr : (sniffLine st l).2 ≠ ""
    · rw [if_pos hr] at h ⊢
      obtain ⟨v, hv, hf, ⟨l1, hl1, hc1⟩, ⟨l2, hl2, hc2⟩⟩ := hsp.2 hr
      refine ⟨v, hv, hf, ⟨l1, ?_, hc1⟩, ⟨l2, ?_, hc2⟩⟩
      · rcases List.mem_cons.mp hl1 with e | e
        · exact Or.inr (e ▸ List.mem_cons_self)
        · exact Or.inl e
      · rcases List.mem_cons.mp hl2 with e | e
        · exact Or.inr (e ▸ List.mem_cons_self)
        · exact Or.inl e
    · rw [if_neg hr] at h ⊢
      obtain ⟨v, hv, hf, ⟨l1, hl1, hc1⟩, ⟨l2, hl2, hc2⟩⟩ := ih (l :: seen) _ hsp.1 h
      refine ⟨v, hv, hf, ⟨l1, ?_, hc1⟩, ⟨l2, ?_, hc2⟩⟩
      · rcases hl1 with e | e
        · rcases List.mem_cons.mp e with e | e
          · exact Or.inr (e ▸ List.mem_cons_self)
          · exact Or.inl e
        · exact Or.inr (List.mem_cons_of_mem _ e)
      · rcases hl2 with e | e
        · rcases List.mem_cons.mp e with e | e
          · exact Or.inr (e ▸ List.mem_cons_self)
          · exact Or.inl e
        · exact Or.inr (List.mem_cons_of_mem _ e)

/-- line branch: a report is an SPDX tag-value format, some line carries the `SPDXVersion:` tag
    and some line carries the reported version -/
theorem detect_sound_lines (ls : List String) (h : sniffLines {} ls ≠ "") :
    LineReport (· ∈ ls) (sniffLines {} ls) := by
  have := sniffLines_spec ls [] {} ⟨rfl, Or.inl ⟨rfl, rfl⟩⟩ h
  obtain ⟨v, hv, hf, ⟨l1, hl1, hc1⟩, ⟨l2, hl2, hc2⟩⟩ := this
  refine ⟨v, hv, hf, ⟨l1, ?_, hc1⟩, ⟨l2, ?_, hc2⟩⟩
  · rcases hl1 with e | e
    · cases e
    · exact e
  · rcases hl2 with e | e
    · cases e
    · exact e

/-- and the accessors of such a report agree with it -/
theorem line_report_accessors : ∀ v ∈ spdxVersions,
    typ ("text/spdx+text;version=" ++ v) = "spdx" ∧ encoding ("text/spdx+text;version=" ++ v) = "text" ∧
    version ("text/spdx+text;version=" ++ v) = v := by decide

/-- input without any `SPDXVersion:` line and without a decodable declaration is refused -/
theorem detect_refuses_lines (ls : List String)
    (h : ∀ l ∈ ls, Str.containsSub l "SPDXVersion:" = false) : (sniffReader ⟨none, ls⟩).1 = .err := by
  by_cases hf : sniffLines {} ls ≠ ""
  · obtain ⟨_, _, _, ⟨l1, hl1, hc1⟩, _⟩ := detect_sound_lines ls hf
    rw [h l1 hl1] at hc1; cases hc1
  · simp only [sniffReader, if_neg hf]

/-! ### clause 3: total and non-consuming -/

/-- detection never panics: every outcome is a format or an error -/
theorem detect_total (i : Input) : (sniffReader i).1.isPanic = false := by
  unfold sniffReader
  split
  · split <;> rfl
  · simp only; split <;> rfl

/-- the stream is at offset 0 afterwards, whatever the reads consumed and wherever it started -/
theorem detect_rewinds (adv : Nat → Nat) (p : Nat) (i : Input) :
    posAfter adv p (sniffReader i).2 = 0 := by
  unfold sniffReader
  split <;> simp [posAfter]

/-- so the following parse sees the whole document -/
theorem parse_sees_all {α} (bytes : List α) (adv : Nat → Nat) (p : Nat) (i : Input) :
    bytes.drop (posAfter adv p (sniffReader i).2) = bytes := by
  rw [detect_rewinds]; rfl

/-- premises are satisfiable / the branches are live -/
example : (sniffReader ⟨some ⟨"CycloneDX", "1.5", ""⟩, []⟩).1 = .ok "application/vnd.cyclonedx+json;version=1.5" := by decide
example : (sniffReader ⟨some ⟨"cyclonedx", "1.6", ""⟩, []⟩).1 = .err := by decide
example : (sniffReader ⟨none, ["SPDXVersion: SPDX-2.3"]⟩).1 = .ok "text/spdx+text;version=2.3" := by decide
example : (sniffReader ⟨none, ["SPDXVersion: x", "  \"SPDX-2.2\""]⟩).1 = .ok "text/spdx+text;version=2.2" := by decide
example : (sniffReader ⟨none, ["\"SPDX-2.2\""]⟩).1 = .err := by decide

end Protobom.C06
