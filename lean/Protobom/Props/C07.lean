/-
  C07 — Serializers are total and deterministic on arbitrary documents.
  Theorems about `Model/Write.lean` (the serializer models themselves are `Spdx.serSPDX`,
  `Cdx.serCDX`, tied to the code by the streams `spdx`, `cdx`; the fault stream is `ser`).
-/
import Protobom.Model.Write
import Protobom.Props.C04
import Protobom.Gen.Skel
import Protobom.Expect.Skel

namespace Protobom.C07
open Protobom Protobom.Parse Protobom.Write Gen

/-! ### tie to the source -/

theorem spdx_sites_guarded : ∀ e ∈ Write.spdxSites, ∀ s ∈ e.2, guardPresent s = true := by decide
theorem cdx_sites_guarded : ∀ e ∈ Write.cdxSites, ∀ s ∈ e.2, guardPresent s = true := by
  have h : (Write.cdxSites.all (fun e => e.2.all guardPresent)) = true := by decide +kernel
  intro e he s hs
  exact List.all_eq_true.mp (List.all_eq_true.mp h e he) s hs
theorem writer_sites_guarded : ∀ e ∈ Write.writerSites, ∀ s ∈ e.2, guardPresent s = true := by
  have h : (Write.writerSites.all (fun e => e.2.all guardPresent)) = true := by decide +kernel
  intro e he s hs
  exact List.all_eq_true.mp (List.all_eq_true.mp h e he) s hs

theorem skel_CDX_Serialize : Skel.serializers_CDX_Serialize = Expect.Skel.serializers_CDX_Serialize := by decide +kernel
theorem skel_SPDX_Serialize : Skel.serializers_SPDX23_Serialize = Expect.Skel.serializers_SPDX23_Serialize := by decide
theorem skel_WriteStream :
    Skel.writer_Writer_WriteStreamWithOptions = Expect.Skel.writer_Writer_WriteStreamWithOptions := by decide

/-! ### totality -/

def NoPanic {α} (o : Outcome α) : Prop := o.isPanic = false

theorem NoPanic.ok {α} (a : α) : NoPanic (Outcome.ok a) := rfl
theorem NoPanic.err {α} : NoPanic (Outcome.err : Outcome α) := rfl

theorem NoPanic.bind {α β} {o : Outcome α} {f : α → Outcome β} (h : NoPanic o) (hf : ∀ a, NoPanic (f a)) :
    NoPanic (o.bind f) := by
  cases o with
  | ok a => exact hf a
  | err => rfl
  | panic s => cases h

theorem NoPanic.map {α β} {o : Outcome α} (f : α → β) (h : NoPanic o) : NoPanic (o.map f) :=
  h.bind (fun _ => rfl)

theorem NoPanic.foldl {α β} (l : List β) (step : Outcome α → β → Outcome α) (init : Outcome α)
    (h0 : NoPanic init) (hs : ∀ acc b, NoPanic acc → NoPanic (step acc b)) : NoPanic (l.foldl step init) := by
  induction l generalizing init with
  | nil => exact h0
  | cons x xs ih => exact ih _ (hs init x h0)

/-- the SPDX serializer model never panics by itself … -/
theorem serSPDX_not_panic (d : Document) : NoPanic (Spdx.serSPDX d) := by
  unfold Spdx.serSPDX
  split <;> rfl

theorem phaseOut_not_panic (dt : DocType) : NoPanic (Cdx.phaseOut dt) := by
  unfold Cdx.phaseOut
  repeat' split
  all_goals first | rfl | exact NoPanic.ok _ | exact NoPanic.err

theorem pass1_not_panic (known : String → Bool) (edges : List Edge) : NoPanic (Cdx.pass1 known edges) := by
  unfold Cdx.pass1
  apply NoPanic.foldl
  · rfl
  · intro acc e hacc
    apply hacc.bind
    intro st
    repeat' split
    all_goals first | rfl | exact NoPanic.ok _ | exact NoPanic.err | (simp only; split <;> rfl)

theorem serCDX_not_panic (d : Document) : NoPanic (Cdx.serCDX d) := by
  unfold Cdx.serCDX
  split
  · rfl
  · rfl
  · simp only
    split
    · split <;> rfl
    · split
      · rfl
      · split
        · rfl
        · apply NoPanic.bind
          · unfold Cdx.serCDX.mapLifecycles
            apply NoPanic.foldl
            · rfl
            · intro acc dt hacc
              exact hacc.bind (fun l => (phaseOut_not_panic dt).map _)
          · intro lcs
            exact (pass1_not_panic _ _).bind (fun _ => rfl)

/-- for every document value and every set of nil pointers / nil list elements the SPDX
    serializer returns output or an error -/
theorem serSPDXn_total (nils : List String) (d : Document) : NoPanic (serSPDXn nils d) := by
  unfold serSPDXn
  rw [C04.unguarded_none Write.spdxSites spdx_sites_guarded nils]
  exact (serSPDX_not_panic d).map _

/-- … and so does the CycloneDX serializer, at every spec version: absent metadata or node list,
    unknown enum numbers, empty or duplicate identifiers, dangling edges, cycles (the hierarchy
    builder is structurally recursive on its fuel), no or many roots -/
theorem serCDXn_total (v : Nat) (nils : List String) (d : Document) : NoPanic (serCDXn v nils d) := by
  unfold serCDXn
  rw [C04.unguarded_none Write.cdxSites cdx_sites_guarded nils]
  exact (serCDX_not_panic d).map _

/-- the writer: for every format string, nil set and (possibly nil) document, output or error -/
theorem writeStream_total (f : Sniff.Format) (nils : List String) (d : Option Document) :
    NoPanic (writeStream f nils d) := by
  unfold writeStream
  rw [C04.unguarded_none Write.writerSites writer_sites_guarded nils]
  simp only
  split
  · rfl
  · split
    · rfl
    · split
      · exact serSPDXn_total nils _
      · exact serCDXn_total _ nils _

/-! ### determinism and independence of history -/

/-- every serialization of a history is the serialization of that document alone: nothing carried
    over from earlier calls (in the implementation this is the per-call serializer state; stream
    `ser` runs good / failing / good sequences on the real registry against this) -/
theorem writeSeq_independent (f : Sniff.Format) (hist : List (List String × Option Document)) (i : Nat)
    (h : i < hist.length) :
    (writeSeq f hist)[i]'(by simpa [writeSeq] using h) = writeStream f hist[i].1 hist[i].2 := by
  simp [writeSeq]

/-- and the whole history never panics -/
theorem writeSeq_total (f : Sniff.Format) (hist : List (List String × Option Document)) :
    ∀ o ∈ writeSeq f hist, NoPanic o := by
  intro o ho
  simp only [writeSeq, List.mem_map] at ho
  obtain ⟨h, _, rfl⟩ := ho
  exact writeStream_total f h.1 h.2

/-- the same document twice: the same output (the creation timestamp is not part of the model) -/
theorem serialize_deterministic (f : Sniff.Format) (nils : List String) (d : Option Document)
    (before : List (List String × Option Document)) :
    (writeSeq f (before ++ [(nils, d)])).getLast? = (writeSeq f [(nils, d)]).getLast? := by
  simp [writeSeq]

/-- non-vacuity: a missing guard does make the model panic -/
example : (unguarded [("NodeList.Nodes[]", [⟨"serializers.SPDX23.buildPackages", "nosuchguard"⟩])]
    ["NodeList.Nodes[]"]).isSome = true := by decide

end Protobom.C07
