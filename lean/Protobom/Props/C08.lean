/-
  C08 — Graph-editing operations preserve well-formedness. Property theorems only.
-/
import Protobom.Proofs.WF

namespace Protobom.C08
open Protobom

/-! ### single operations -/

theorem union_preserves (a b : NodeList) (ha : a.WF) (hb : b.WF) : (a.union b).WF ∧ (a.union b).Normal :=
  ⟨union_wf a b ha hb, union_normal a b⟩

theorem intersect_preserves (a b : NodeList) : (a.intersect b).WF ∧ (a.intersect b).Normal :=
  ⟨intersect_wf a b, intersect_normal a b⟩

theorem add_preserves (a b : NodeList) (ha : a.WF) (hb : b.WF) : (a.add b).WF ∧ (a.add b).Normal :=
  ⟨add_wf a b ha hb, add_normal a b⟩

theorem removeNodes_preserves (a : NodeList) (rm : List String) (ha : a.WF) :
    (a.removeNodes rm).WF ∧ (a.removeNodes rm).Normal :=
  ⟨removeNodes_wf a rm ha, removeNodes_normal a rm⟩

/-- node removal removes exactly the named nodes, together with every edge and root entry
    mentioning them -/
theorem removeNodes_exact (a : NodeList) (rm : List String) :
    (∀ x, x ∈ (a.removeNodes rm).ids ↔ x ∈ a.ids ∧ x ∉ rm) ∧
    (∀ x, x ∈ (a.removeNodes rm).roots ↔ x ∈ a.roots ∧ x ∉ rm) ∧
    (∀ s t d, (a.removeNodes rm).HasEdge s t d ↔
        a.HasEdge s t d ∧ (s ∈ a.ids ∧ s ∉ rm) ∧ (d ∈ a.ids ∧ d ∉ rm)) :=
  ⟨removeNodes_ids a rm, removeNodes_roots a rm, fun s t d => by
    rw [removeNodes_edges, removeNodes_ids, removeNodes_ids]⟩

theorem relateNode_preserves (a : NodeList) (n : Node) (at_ : String) (ty : Int) (r : NodeList)
    (ha : a.WF) (h : a.relateNodeAtID n at_ ty = some r) : r.WF :=
  relateNodeAtID_wf a n at_ ty r ha h

theorem relateList_preserves (a b : NodeList) (at_ : String) (ty : Int) (r : NodeList)
    (ha : a.WF) (hb : b.WF) (h : a.relateNodeListAtID b at_ ty = some r) : r.WF :=
  relateNodeListAtID_wf a b at_ ty r ha hb h

/-- extraction results are well-formed and normalised whatever the source list is -/
theorem nodeGraph_preserves (a : NodeList) (id : String) (r : NodeList) (h : a.nodeGraph id = some r) :
    r.WF ∧ r.Normal := ⟨nodeGraph_wf a id r h, nodeGraph_normal a id r h⟩

theorem nodeSiblings_preserves (a : NodeList) (id : String) (r : NodeList)
    (h : a.nodeSiblings id = some r) : r.WF ∧ r.Normal :=
  ⟨nodeSiblings_wf a id r h, nodeSiblings_normal a id r h⟩

theorem nodeDescendants_preserves (a : NodeList) (id : String) (depth : Int) :
    (a.nodeDescendants id depth).WF ∧ (a.nodeDescendants id depth).Normal :=
  ⟨nodeDescendants_wf a id depth, nodeDescendants_normal a id depth⟩

theorem purlType_preserves (a : NodeList) (t : String) (ha : a.WF) :
    (a.getNodesByPurlType t).WF ∧ (a.getNodesByPurlType t).Normal :=
  ⟨getNodesByPurlType_wf a t ha.nodup, getNodesByPurlType_normal a t⟩

/-! ### any sequence of operations keeps the invariant -/

theorem empty_wf : ({} : NodeList).WF := ⟨List.nodup_nil, by simp, by simp, by simp⟩

theorem reg_wf (regs : List NodeList) (h : ∀ r ∈ regs, r.WF) (i : Nat) : (reg regs i).WF := by
  unfold reg
  rw [List.getD_eq_getElem?_getD]
  cases hi : regs[i]? with
  | none => exact empty_wf
  | some r => exact h r (List.mem_of_getElem? hi)

theorem set_wf (regs : List NodeList) (h : ∀ r ∈ regs, r.WF) (i : Nat) (x : NodeList) (hx : x.WF) :
    ∀ r ∈ regs.set i x, r.WF := by
  intro r hr
  rcases List.mem_or_eq_of_mem_set hr with h1 | h1
  · exact h r h1
  · exact h1 ▸ hx

theorem exec_wf (regs : List NodeList) (h : ∀ r ∈ regs, r.WF) (i : Instr) : ∀ r ∈ exec regs i, r.WF := by
  cases i with
  | union dst a b => exact set_wf regs h _ _ (union_wf _ _ (reg_wf regs h a) (reg_wf regs h b))
  | intersect dst a b => exact set_wf regs h _ _ (intersect_wf _ _)
  | add a b => exact set_wf regs h _ _ (add_wf _ _ (reg_wf regs h a) (reg_wf regs h b))
  | removeNodes a ids => exact set_wf regs h _ _ (removeNodes_wf _ _ (reg_wf regs h a))
  | relateNode a n at_ ty =>
    simp only [exec]
    split
    · rename_i r hr; exact set_wf regs h _ _ (relateNodeAtID_wf _ n at_ ty r (reg_wf regs h a) hr)
    · exact h
  | relateList a b at_ ty =>
    simp only [exec]
    split
    · rename_i r hr
      exact set_wf regs h _ _ (relateNodeListAtID_wf _ _ at_ ty r (reg_wf regs h a) (reg_wf regs h b) hr)
    · exact h
  | nodeGraph dst a id =>
    simp only [exec]
    split
    · rename_i r hr; exact set_wf regs h _ _ (nodeGraph_wf _ id r hr)
    · exact h
  | nodeSiblings dst a id =>
    simp only [exec]
    split
    · rename_i r hr; exact set_wf regs h _ _ (nodeSiblings_wf _ id r hr)
    · exact h
  | nodeDescendants dst a id depth => exact set_wf regs h _ _ (nodeDescendants_wf _ id depth)
  | purlType dst a t => exact set_wf regs h _ _ (getNodesByPurlType_wf _ t (reg_wf regs h a).nodup)

/-- every register stays well-formed along every finite sequence of editing operations with
    arbitrary arguments -/
theorem run_preserves (regs : List NodeList) (h : ∀ r ∈ regs, r.WF) (prog : List Instr) :
    ∀ r ∈ run regs prog, r.WF := by
  unfold run
  induction prog generalizing regs with
  | nil => exact h
  | cons i is ih => simp only [List.foldl_cons]; exact ih _ (exec_wf regs h i)

/-- non-vacuity: the hypothesis is met by a register file holding a cyclic list with a root -/
example : ∀ r ∈ [({ nodes := [{ id := "a" }, { id := "b" }],
                    edges := [{ ty := 5, src := "a", tos := ["b"] }, { ty := 10, src := "b", tos := ["a"] }],
                    roots := ["a"] } : NodeList), {}], r.WF := by
  intro r hr
  simp only [List.mem_cons, List.not_mem_nil, or_false] at hr
  rcases hr with rfl | rfl
  · constructor <;> simp [NodeList.ids]
  · exact empty_wf

end Protobom.C08
