/-
  C09 — Union and in-place add obey set-union and precedence laws.
  Property theorems only; helper lemmas live in Protobom/Proofs.
-/
import Protobom.Proofs.Union
import Protobom.Proofs.NodeAttrs

namespace Protobom.C09
open Protobom

/-- edges of an operand mention only its own nodes (roots may dangle, identifiers may repeat) -/
def EdgesClosed (nl : NodeList) : Prop := ∀ s t d, nl.HasEdge s t d → s ∈ nl.ids ∧ d ∈ nl.ids

/-! ### refinement to set union (no well-formedness hypothesis: ill-formed operands included) -/

theorem union_nodes (a b : NodeList) (x : String) : x ∈ (a.union b).ids ↔ x ∈ a.ids ∨ x ∈ b.ids :=
  union_ids a b x

theorem union_rootset (a b : NodeList) (x : String) :
    x ∈ (a.union b).roots ↔ x ∈ a.roots ∨ x ∈ b.roots := union_roots a b x

theorem union_edgeset (a b : NodeList) (s : String) (t : Int) (d : String) :
    (a.union b).HasEdge s t d ↔
      (a.HasEdge s t d ∨ b.HasEdge s t d) ∧ (s ∈ a.ids ∨ s ∈ b.ids) ∧ (d ∈ a.ids ∨ d ∈ b.ids) := by
  rw [union_edges, union_ids, union_ids]

/-- least upper bound: a list that has the nodes of both operands has the nodes of the union -/
theorem union_lub_nodes (a b c : NodeList) (ha : ∀ x, x ∈ a.ids → x ∈ c.ids)
    (hb : ∀ x, x ∈ b.ids → x ∈ c.ids) (x : String) (h : x ∈ (a.union b).ids) : x ∈ c.ids := by
  rw [union_ids] at h; exact h.elim (ha x) (hb x)

/-- each operand's edges between nodes the union has are edges of the union -/
theorem union_edges_sup (a b : NodeList) (s t d) (h : a.HasEdge s t d ∨ b.HasEdge s t d)
    (hs : s ∈ (a.union b).ids) (hd : d ∈ (a.union b).ids) : (a.union b).HasEdge s t d := by
  rw [union_ids] at hs hd
  rw [union_edges, union_ids, union_ids]; exact ⟨h, hs, hd⟩

theorem add_nodes (a b : NodeList) (x : String) : x ∈ (a.add b).ids ↔ x ∈ a.ids ∨ x ∈ b.ids :=
  add_ids a b x

theorem add_rootset (a b : NodeList) (x : String) :
    x ∈ (a.add b).roots ↔ x ∈ a.roots ∨ x ∈ b.roots := add_roots a b x

theorem add_edgeset (a b : NodeList) (s : String) (t : Int) (d : String) :
    (a.add b).HasEdge s t d ↔
      (a.HasEdge s t d ∨ b.HasEdge s t d) ∧ (s ∈ a.ids ∨ s ∈ b.ids) ∧ (d ∈ a.ids ∨ d ∈ b.ids) := by
  rw [add_edges, add_ids, add_ids]

/-- the in-place variant computes the same sets as union -/
theorem add_equiv_union (a b : NodeList) : a.add b ≃ₙ a.union b :=
  ⟨fun x => by rw [add_ids, union_ids], fun x => by rw [add_roots, union_roots],
   fun s t d => by rw [add_edgeset, union_edgeset]⟩

/-! ### algebraic laws on the sets -/

theorem union_comm (a b : NodeList) : a.union b ≃ₙ b.union a :=
  ⟨fun x => by rw [union_ids, union_ids, or_comm],
   fun x => by rw [union_roots, union_roots, or_comm],
   fun s t d => by
    rw [union_edgeset, union_edgeset, or_comm, or_comm (a := s ∈ a.ids), or_comm (a := d ∈ a.ids)]⟩

/-- idempotent: the union of a list with itself has its nodes, its roots and its edges
    restricted to present nodes (which is `cleanEdges`) -/
theorem union_idem (a : NodeList) : a.union a ≃ₙ a.cleanEdges :=
  ⟨fun x => by rw [union_ids, or_self]; rfl,
   fun x => by rw [union_roots, or_self]; rfl,
   fun s t d => by rw [union_edgeset, cleanEdges_rel, or_self, or_self, or_self]⟩

theorem union_empty_right (a : NodeList) : a.union NodeList.empty ≃ₙ a.cleanEdges :=
  ⟨fun x => by rw [union_ids]; simp [NodeList.empty, NodeList.ids],
   fun x => by rw [union_roots]; simp [NodeList.empty],
   fun s t d => by
    rw [union_edgeset, cleanEdges_rel]
    simp [NodeList.empty, NodeList.ids, NodeList.HasEdge, HasEdgeL]⟩

theorem union_empty_left (a : NodeList) : NodeList.empty.union a ≃ₙ a.cleanEdges :=
  ⟨fun x => by rw [union_ids]; simp [NodeList.empty, NodeList.ids],
   fun x => by rw [union_roots]; simp [NodeList.empty],
   fun s t d => by
    rw [union_edgeset, cleanEdges_rel]
    simp [NodeList.empty, NodeList.ids, NodeList.HasEdge, HasEdgeL]⟩

/-- when edges are closed, `cleanEdges` changes nothing on the sets, so `a` itself is the identity/idempotence result -/
theorem cleanEdges_equiv_of_closed (a : NodeList) (h : EdgesClosed a) : a.cleanEdges ≃ₙ a :=
  ⟨fun _ => Iff.rfl, fun _ => Iff.rfl, fun s t d => by
    rw [cleanEdges_rel]
    exact ⟨fun h' => h'.1, fun h' => ⟨h', h s t d h'⟩⟩⟩

/-- associativity. PARTIAL with respect to the property text: it is proved for operands whose
    edges are closed. For operands with dangling edges the first clause of the property (edges of
    either operand *restricted to present nodes*) and associativity are jointly unsatisfiable by
    any implementation — see `finding_union_assoc_dangling` below and DESIGN.md. -/
theorem union_assoc_partial (a b c : NodeList) (ha : EdgesClosed a) (hb : EdgesClosed b)
    (hc : EdgesClosed c) : (a.union b).union c ≃ₙ a.union (b.union c) :=
  ⟨fun x => by simp only [union_ids, or_assoc],
   fun x => by simp only [union_roots, or_assoc],
   fun s t d => by
    simp only [union_edgeset, union_ids]
    constructor
    · rintro ⟨((⟨hA | hB, _, _⟩) | hC), _, _⟩
      · exact ⟨Or.inl hA, Or.inl (ha s t d hA).1, Or.inl (ha s t d hA).2⟩
      · exact ⟨Or.inr ⟨Or.inl hB, Or.inl (hb s t d hB).1, Or.inl (hb s t d hB).2⟩,
               Or.inr (Or.inl (hb s t d hB).1), Or.inr (Or.inl (hb s t d hB).2)⟩
      · exact ⟨Or.inr ⟨Or.inr hC, Or.inr (hc s t d hC).1, Or.inr (hc s t d hC).2⟩,
               Or.inr (Or.inr (hc s t d hC).1), Or.inr (Or.inr (hc s t d hC).2)⟩
    · rintro ⟨(hA | ⟨hB | hC, _, _⟩), _, _⟩
      · exact ⟨Or.inl ⟨Or.inl hA, Or.inl (ha s t d hA).1, Or.inl (ha s t d hA).2⟩,
               Or.inl (Or.inl (ha s t d hA).1), Or.inl (Or.inl (ha s t d hA).2)⟩
      · exact ⟨Or.inl ⟨Or.inr hB, Or.inr (hb s t d hB).1, Or.inr (hb s t d hB).2⟩,
               Or.inl (Or.inr (hb s t d hB).1), Or.inl (Or.inr (hb s t d hB).2)⟩
      · exact ⟨Or.inr hC, Or.inr (hc s t d hC).1, Or.inr (hc s t d hC).2⟩⟩

/-- the union of edge-closed lists is edge-closed (so the partial law composes) -/
theorem union_closed (a b : NodeList) : EdgesClosed (a.union b) := fun s t d h =>
  ((union_edges a b s t d).mp h).2

/-! ### known finding: associativity fails when an operand has a dangling edge whose endpoints
    appear in a later operand (witness replayed on the implementation by the check) -/

def wA : NodeList := { edges := [{ ty := 5, src := "x", tos := ["x"] }] }
def wB : NodeList := {}
def wC : NodeList := { nodes := [{ id := "x" }] }

theorem finding_union_assoc_dangling :
    ¬ ((wA.union wB).union wC ≃ₙ wA.union (wB.union wC)) := by
  intro h
  have hR : (wA.union (wB.union wC)).HasEdge "x" 5 "x" := by
    rw [union_edgeset]
    refine ⟨Or.inl ⟨_, List.mem_singleton.mpr rfl, rfl, rfl, List.mem_singleton.mpr rfl⟩, ?_, ?_⟩ <;>
    · right; rw [union_ids]; right; simp [wC, NodeList.ids]
  have hL := (h.edges "x" 5 "x").mpr hR
  rw [union_edgeset] at hL
  rcases hL.1 with h1 | h1
  · rw [union_edgeset] at h1
    rcases h1.2.1 with h2 | h2 <;> simp [wA, wB, NodeList.ids] at h2
  · simp [wC, NodeList.HasEdge, HasEdgeL] at h1

/-- non-vacuity: the hypothesis of the partial law is met by a cyclic list with a root -/
example : EdgesClosed { nodes := [{ id := "a" }, { id := "b" }],
                        edges := [{ ty := 5, src := "a", tos := ["b"] }, { ty := 10, src := "b", tos := ["a"] }],
                        roots := ["a"] } := by
  intro s t d h
  simp [NodeList.HasEdge, HasEdgeL] at h
  rcases h with ⟨rfl, _, rfl⟩ | ⟨rfl, _, rfl⟩ <;> simp [NodeList.ids]

/-! ### attribute precedence -/

/-- `Update` handles every attribute of the schema (regenerated table, checked by evaluation) -/
theorem update_covers_schema :
    ∀ fk ∈ Gen.Schema.nodeAttrs, updateHandles fk.1 fk.2 = true := by decide

theorem augment_covers_schema :
    ∀ fk ∈ Gen.Schema.nodeAttrs, augmentHandles fk.1 fk.2 = true := by decide

/-- for every attribute of the schema: the second operand's value when non-empty, else the first's -/
theorem update_precedence (n m : Node) (hn : n.shaped) (hm : m.shaped) (i : Nat)
    (hi : i < Gen.Schema.nodeAttrs.length) :
    (n.update m).attrs[i]? =
      if (m.attrs[i]?.getD (.str "")).isEmpty then n.attrs[i]? else m.attrs[i]? :=
  update_attr n m hn hm i hi update_covers_schema

/-- the in-place variant keeps the receiver's non-empty attributes and fills only its empty ones -/
theorem augment_precedence (n m : Node) (hn : n.shaped) (hm : m.shaped) (i : Nat)
    (hi : i < Gen.Schema.nodeAttrs.length) :
    (n.augment m).attrs[i]? =
      if (n.attrs[i]?.getD (.str "")).isEmpty && !(m.attrs[i]?.getD (.str "")).isEmpty
      then m.attrs[i]? else n.attrs[i]? :=
  augment_attr n m hn hm i hi augment_covers_schema

/-- node-level clause of union: with unique identifiers, every node of the union is a node of
    the first operand updated by the second operand's node of the same identifier, a node of the
    first operand that the second lacks, or a node of the second that the first lacks -/
theorem union_node (a b : NodeList) (ha : a.ids.Nodup) (hb : b.ids.Nodup) (x : Node) :
    x ∈ (a.union b).nodes ↔
      (∃ p ∈ a.nodes, (∃ q ∈ b.nodes, q.id = p.id ∧ x = p.update q) ∨ (p.id ∉ b.ids ∧ x = p)) ∨
      (x ∈ b.nodes ∧ x.id ∉ a.ids) :=
  union_nodes_char a b ha hb x

theorem add_node (a b : NodeList) (ha : a.ids.Nodup) (hb : b.ids.Nodup) (x : Node) :
    x ∈ (a.add b).nodes ↔
      (∃ p ∈ a.nodes, (∃ q ∈ b.nodes, q.id = p.id ∧ x = p.augment q) ∨ (p.id ∉ b.ids ∧ x = p)) ∨
      (x ∈ b.nodes ∧ x.id ∉ a.ids) :=
  add_nodes_char a b ha hb x

end Protobom.C09
