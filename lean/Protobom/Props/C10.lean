/-
  C10 — Intersection obeys set-intersection laws. Property theorems only.
-/
import Protobom.Proofs.Intersect

namespace Protobom.C10
open Protobom

/-- exactly the nodes present in both operands (no hypothesis on the operands) -/
theorem intersect_nodes (a b : NodeList) (x : String) :
    x ∈ (a.intersect b).ids ↔ x ∈ a.ids ∧ x ∈ b.ids := intersect_ids a b x

/-- each surviving node exactly once, even when the operands repeat identifiers -/
theorem intersect_nodes_once (a b : NodeList) : (a.intersect b).ids.Nodup := intersect_ids_nodup a b

/-- roots: exactly the surviving nodes that are a root of at least one operand -/
theorem intersect_rootset (a b : NodeList) (x : String) :
    x ∈ (a.intersect b).roots ↔ x ∈ (a.intersect b).ids ∧ (x ∈ a.roots ∨ x ∈ b.roots) := by
  rw [intersect_roots, intersect_ids]

/-- … so they are drawn only from the operands' roots that survive … -/
theorem intersect_roots_sub (a b : NodeList) (x : String) (h : x ∈ (a.intersect b).roots) :
    (x ∈ a.roots ∨ x ∈ b.roots) ∧ x ∈ (a.intersect b).ids :=
  ⟨((intersect_rootset a b x).mp h).2, ((intersect_rootset a b x).mp h).1⟩

/-- … and include all that are roots in both -/
theorem intersect_roots_sup (a b : NodeList) (x : String) (ha : x ∈ a.roots) (_hb : x ∈ b.roots)
    (hs : x ∈ (a.intersect b).ids) : x ∈ (a.intersect b).roots :=
  (intersect_rootset a b x).mpr ⟨hs, Or.inl ha⟩

/-- edges: exactly the edges of either operand whose two endpoints survive -/
theorem intersect_edgeset (a b : NodeList) (s : String) (t : Int) (d : String) :
    (a.intersect b).HasEdge s t d ↔
      (a.HasEdge s t d ∨ b.HasEdge s t d) ∧ (s ∈ a.ids ∧ s ∈ b.ids) ∧ (d ∈ a.ids ∧ d ∈ b.ids) := by
  rw [intersect_edges, intersect_ids, intersect_ids]

theorem intersect_edges_sub (a b : NodeList) (s t d) (h : (a.intersect b).HasEdge s t d) :
    (a.HasEdge s t d ∨ b.HasEdge s t d) ∧ s ∈ (a.intersect b).ids ∧ d ∈ (a.intersect b).ids :=
  (intersect_edges a b s t d).mp h

theorem intersect_edges_sup (a b : NodeList) (s t d) (ha : a.HasEdge s t d) (_hb : b.HasEdge s t d)
    (hs : s ∈ (a.intersect b).ids) (hd : d ∈ (a.intersect b).ids) : (a.intersect b).HasEdge s t d :=
  (intersect_edges a b s t d).mpr ⟨Or.inl ha, hs, hd⟩

/-! ### laws on the sets -/

theorem intersect_comm (a b : NodeList) : a.intersect b ≃ₙ b.intersect a :=
  ⟨fun x => by rw [intersect_ids, intersect_ids, and_comm],
   fun x => by rw [intersect_roots, intersect_roots, and_comm (a := x ∈ a.ids), or_comm],
   fun s t d => by
    rw [intersect_edgeset, intersect_edgeset, or_comm, and_comm (a := s ∈ a.ids), and_comm (a := d ∈ a.ids)]⟩

/-- associative on the three sets, for operands of any shape (repeated identifiers, dangling edges,
    roots that name no node): unlike the union (C09, `union_assoc_partial`) no closure hypothesis is
    needed, because every edge and root of an intersection is already restricted to its nodes -/
theorem intersect_assoc (a b c : NodeList) :
    (a.intersect b).intersect c ≃ₙ a.intersect (b.intersect c) :=
  ⟨fun x => by simp only [intersect_ids, and_assoc],
   fun x => by simp only [intersect_roots, intersect_ids]; grind,
   fun s t d => by simp only [intersect_edgeset, intersect_ids]; grind⟩

/-- the intersection of three lists has exactly the nodes all three have, whatever the grouping
    and the order of the operands -/
theorem intersect3_nodes (a b c : NodeList) (x : String) :
    x ∈ ((a.intersect b).intersect c).ids ↔ x ∈ a.ids ∧ x ∈ b.ids ∧ x ∈ c.ids := by
  simp only [intersect_ids, and_assoc]

/-- monotone: an intersection never has a node, root or edge that the union lacks -/
theorem intersect_sub_union_nodes (a b : NodeList) (x : String) (h : x ∈ (a.intersect b).ids) :
    x ∈ (a.union b).ids := by
  rw [intersect_ids] at h; rw [union_ids]; exact Or.inl h.1

/-- with the union (C09) the node sets form a distributive lattice: intersection distributes over
    union … -/
theorem intersect_union_distrib_nodes (a b c : NodeList) (x : String) :
    x ∈ (a.intersect (b.union c)).ids ↔ x ∈ ((a.intersect b).union (a.intersect c)).ids := by
  simp only [intersect_ids, union_ids]; grind

/-- … union distributes over intersection … -/
theorem union_intersect_distrib_nodes (a b c : NodeList) (x : String) :
    x ∈ (a.union (b.intersect c)).ids ↔ x ∈ ((a.union b).intersect (a.union c)).ids := by
  simp only [intersect_ids, union_ids]; grind

/-- … and the second absorption law (the first is `intersect_union_absorb`) -/
theorem union_intersect_absorb (a b : NodeList) (x : String) :
    x ∈ (a.union (a.intersect b)).ids ↔ x ∈ a.ids := by
  simp only [intersect_ids, union_ids]; grind

/-- an intersection's edges are edges of the union of the operands (both restrict to present nodes) -/
theorem intersect_sub_union_edges (a b : NodeList) (s t d) (h : (a.intersect b).HasEdge s t d) :
    (a.union b).HasEdge s t d := by
  rw [intersect_edgeset] at h
  rw [union_edges, union_ids, union_ids]
  grind

/-- greatest lower bound: a list whose nodes are nodes of both operands has only nodes of the
    intersection (with `intersect_nodes`, the intersection is the meet of the node sets) -/
theorem intersect_glb_nodes (a b c : NodeList) (ha : ∀ x, x ∈ c.ids → x ∈ a.ids)
    (hb : ∀ x, x ∈ c.ids → x ∈ b.ids) (x : String) (h : x ∈ c.ids) : x ∈ (a.intersect b).ids := by
  rw [intersect_ids]; exact ⟨ha x h, hb x h⟩

/-- idempotent: same nodes, the roots that name a node, the edges between present nodes -/
theorem intersect_idem (a : NodeList) :
    (∀ x, x ∈ (a.intersect a).ids ↔ x ∈ a.ids) ∧
    (∀ x, x ∈ (a.intersect a).roots ↔ x ∈ a.roots ∧ x ∈ a.ids) ∧
    (∀ s t d, (a.intersect a).HasEdge s t d ↔ a.cleanEdges.HasEdge s t d) :=
  ⟨fun x => by rw [intersect_ids, and_self],
   fun x => by rw [intersect_roots, and_self, or_self, and_comm],
   fun s t d => by rw [intersect_edgeset, cleanEdges_rel, or_self, and_self, and_self]⟩

/-- for a well-formed list the intersection with itself is the list (on the sets) -/
theorem intersect_idem_wf (a : NodeList) (h : a.WF) : a.intersect a ≃ₙ a :=
  ⟨(intersect_idem a).1,
   fun x => by rw [(intersect_idem a).2.1]; exact ⟨fun h' => h'.1, fun h' => ⟨h', h.roots x h'⟩⟩,
   fun s t d => by
    rw [(intersect_idem a).2.2, cleanEdges_rel]
    refine ⟨fun h' => h'.1, fun h' => ⟨h', ?_⟩⟩
    obtain ⟨e, he, rfl, _, hd⟩ := h'
    exact ⟨h.src e he, h.dst e he d hd⟩⟩

/-- absorption: intersecting with a union that contains the first operand yields its nodes -/
theorem intersect_union_absorb (a b : NodeList) (x : String) :
    x ∈ (a.intersect (a.union b)).ids ↔ x ∈ a.ids := by
  rw [intersect_ids, union_ids]
  exact ⟨fun h => h.1, fun h => ⟨h, Or.inl h⟩⟩

/-- against the empty list the intersection is empty -/
theorem intersect_empty (a : NodeList) :
    (a.intersect NodeList.empty).ids = [] ∧ (a.intersect NodeList.empty).roots = [] ∧
    ∀ s t d, ¬ (a.intersect NodeList.empty).HasEdge s t d := by
  have hid : ∀ x, x ∉ (a.intersect NodeList.empty).ids := fun x hx => by
    have := (intersect_ids a NodeList.empty x).mp hx
    simp [NodeList.empty, NodeList.ids] at this
  refine ⟨List.eq_nil_iff_forall_not_mem.mpr hid, ?_, ?_⟩
  · apply List.eq_nil_iff_forall_not_mem.mpr
    intro x hx
    exact hid x ((intersect_rootset a _ x).mp hx).1
  · intro s t d h
    exact hid s ((intersect_edges a _ s t d).mp h).2.1

theorem empty_intersect (a : NodeList) :
    (NodeList.empty.intersect a).ids = [] ∧ (NodeList.empty.intersect a).roots = [] ∧
    ∀ s t d, ¬ (NodeList.empty.intersect a).HasEdge s t d := by
  have hid : ∀ x, x ∉ (NodeList.empty.intersect a).ids := fun x hx => by
    have := (intersect_ids NodeList.empty a x).mp hx
    simp [NodeList.empty, NodeList.ids] at this
  refine ⟨List.eq_nil_iff_forall_not_mem.mpr hid, ?_, ?_⟩
  · apply List.eq_nil_iff_forall_not_mem.mpr
    intro x hx
    exact hid x ((intersect_rootset _ a x).mp hx).1
  · intro s t d h
    exact hid s ((intersect_edges _ a s t d).mp h).2.1

/-! ### attributes of surviving nodes: second operand wins when non-empty -/

theorem intersect_node (a b : NodeList) (ha : a.ids.Nodup) (hb : b.ids.Nodup) (x : Node) :
    x ∈ (a.intersect b).nodes ↔ ∃ p ∈ a.nodes, ∃ q ∈ b.nodes, q.id = p.id ∧ x = p.update q :=
  intersect_nodes_char a b ha hb x

theorem update_covers_schema :
    ∀ fk ∈ Gen.Schema.nodeAttrs, updateHandles fk.1 fk.2 = true := by decide

theorem intersect_attr_precedence (n m : Node) (hn : n.shaped) (hm : m.shaped) (i : Nat)
    (hi : i < Gen.Schema.nodeAttrs.length) :
    (n.update m).attrs[i]? =
      if (m.attrs[i]?.getD (.str "")).isEmpty then n.attrs[i]? else m.attrs[i]? :=
  update_attr n m hn hm i hi update_covers_schema

/-- non-vacuity of the well-formedness hypothesis: a cyclic two-node list with a root -/
example : ({ nodes := [{ id := "a" }, { id := "b" }],
             edges := [{ ty := 5, src := "a", tos := ["b"] }, { ty := 10, src := "b", tos := ["a"] }],
             roots := ["a"] } : NodeList).WF := by
  constructor <;> simp [NodeList.ids]

end Protobom.C10
