/-
  C11 — Queries and value-returning operations leave their operands unchanged.

  What is proved here is the *logic*: an operation all of whose writes go to storage the call
  allocated itself cannot change any pre-existing storage (frame theorem), and any number of such
  operations on one shared document have no pair of conflicting accesses on shared storage, in
  every interleaving (race-freedom). Whether each public read-only operation of the library *is*
  operand-pure is decided on the real objects by the correspondence stream `alias` (deep,
  order-sensitive snapshots including the spare capacity of every slice, before and after every
  operation) and by the race detector; at the identity layer the `Copy` family is modelled in
  `Model/Alias.lean` and is pure by construction (C12 proves its results are fresh).
-/
import Protobom.Model.Heap
import Protobom.Proofs.Alias

namespace Protobom.C11
open Protobom.Heap

theorem step_next_mono (s : St) (e : Event) : s.next ≤ (step s e).next := by
  cases e <;> simp [step]

theorem run_next_mono (s : St) (es : List Event) : s.next ≤ (run s es).next := by
  unfold run
  induction es generalizing s with
  | nil => exact Nat.le_refl _
  | cons e es ih => simp only [List.foldl_cons]; exact Nat.le_trans (step_next_mono s e) (ih _)

/-- frame theorem: if every write of a call goes to a tag the call allocated (tags ≥ the counter
    at entry), then all storage that existed before the call is unchanged after it — whatever the
    call reads, allocates or writes elsewhere. (Snapshots of every operand taken before and after
    are therefore equal.) -/
theorem operand_pure_preserves (s : St) (es : List Event) (h : WritesFresh s.next es) :
    ∀ t, t < s.next → (run s es).store t = s.store t := by
  unfold run
  -- generalise: the bound stays below the moving allocation counter
  suffices H : ∀ (base : Nat) (s : St), base ≤ s.next → WritesFresh base es →
      ∀ t, t < base → (es.foldl step s).store t = s.store t from H s.next s (Nat.le_refl _) h
  intro base
  clear h
  induction es with
  | nil => intro s _ _ t _; rfl
  | cons e es ih =>
    intro s hb hw t ht
    simp only [List.foldl_cons]
    have hw' : WritesFresh base es := fun e' he' => hw e' (List.mem_cons_of_mem _ he')
    rw [ih (step s e) (Nat.le_trans hb (step_next_mono s e)) hw' t ht]
    have he := hw e List.mem_cons_self
    cases e with
    | read _ => rfl
    | write u v =>
      simp only at he
      have : t ≠ u := by omega
      simp [step, this]
    | alloc v =>
      have : t ≠ s.next := by omega
      simp [step, this]

/-- concurrency: several calls run on one shared store whose pre-existing part is `[0, base)`.
    Call `i` owns the fresh region `own i` (disjoint regions). If every write of every call goes
    to its own region and no call touches another call's region, then no two events of different
    calls conflict — in any interleaving, since conflicts are defined on pairs of events. -/
theorem operand_pure_calls_race_free (base : Nat) (own : Nat → Nat → Prop) (traces : Nat → List Event)
    (hdisj : ∀ i j t, i ≠ j → own i t → ¬ own j t)
    (hfresh : ∀ i t, own i t → base ≤ t)
    (hwrites : ∀ i, ∀ e ∈ traces i, match e with | .write t _ => own i t | _ => True)
    (hreads : ∀ i, ∀ e ∈ traces i, match e with | .read t => t < base ∨ own i t | _ => True) :
    ∀ i j, i ≠ j → ∀ e ∈ traces i, ∀ f ∈ traces j, ¬ conflict e f := by
  intro i j hij e he f hf hc
  have we := hwrites i e he
  have wf := hwrites j f hf
  have re := hreads i e he
  have rf := hreads j f hf
  cases e <;> cases f <;> simp only [conflict] at hc
  · -- read / write
    rename_i t u v
    subst hc
    simp only at re wf
    rcases re with h | h
    · have := hfresh j t wf; omega
    · exact hdisj i j t hij h wf
  · -- write / read
    rename_i t v u
    subst hc
    simp only at we rf
    rcases rf with h | h
    · have := hfresh i t we; omega
    · exact hdisj i j t hij we h
  · -- write / write
    rename_i t v u w
    subst hc
    simp only at we wf
    exact hdisj i j t hij we wf

/-- non-vacuity: a call that allocates a result and writes into it is operand-pure -/
example : WritesFresh 3 [.read 0, .alloc ["x"], .write 3 ["y"], .read 2] := by
  intro e he
  simp only [List.mem_cons, List.not_mem_nil, or_false] at he
  rcases he with rfl | rfl | rfl | rfl <;> simp

/-- at the identity layer a deep copy touches no tag of its operand: every tag of the result is
    fresh and the operand value is returned unchanged by construction (the model is functional) -/
theorem copy_allocates_fresh (o : L2.Obj) (s : Nat) : ∀ t ∈ (o.refresh s).1.tags, s ≤ t :=
  fun t ht => ((L2.refresh_spec o s).1 t ht).1

end Protobom.C11
