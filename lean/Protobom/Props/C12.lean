/-
  C12 — Copies and combined results are independent values. Property theorems only.
  Identity layer (Model/Alias.lean); the per-field copy forms are the regenerated tables.
-/
import Protobom.Proofs.Alias

namespace Protobom.C12
open Protobom Protobom.L2 Gen

/-- the shape a field of a given schema kind has at the identity layer: scalars are leaves;
    string/enum lists, maps and timestamps are a box over leaves (or a leaf when nil); lists of
    persons / references are a box over message boxes -/
def kindShape (kind : String) (o : Obj) : Bool :=
  if kind = "str" ∨ kind = "bool" ∨ kind = "enum" then o.isLeaf
  else if kind = "strs" ∨ kind = "enums" ∨ kind = "imap" ∨ kind = "date" then
    (match o with | .leaf _ => true | .box _ ks => ks.all Obj.isLeaf)
  else true

/-- a copy form that gives a field of this kind storage of its own -/
def formOK (kind form : String) : Bool :=
  if kind = "str" ∨ kind = "bool" ∨ kind = "enum" then form = "alias"
  else if kind = "strs" ∨ kind = "enums" ∨ kind = "imap" then form = "clone" ∨ form = "elemcopy"
  else if kind = "date" then form = "newtime"
  else form = "elemcopy"

theorem formFresh_of_formOK (kind form : String) (o : Obj) (hs : kindShape kind o = true)
    (hf : formOK kind form = true) : formFresh form o = true := by
  cases o with
  | leaf v => rfl
  | box t ks =>
    unfold kindShape at hs
    unfold formOK at hf
    simp only [formFresh]
    by_cases h1 : kind = "str" ∨ kind = "bool" ∨ kind = "enum"
    · simp [h1, Obj.isLeaf] at hs
    · simp only [h1, if_false] at hs hf
      by_cases h2 : kind = "strs" ∨ kind = "enums" ∨ kind = "imap" ∨ kind = "date"
      · simp only [h2, if_true] at hs
        by_cases h3 : kind = "strs" ∨ kind = "enums" ∨ kind = "imap"
        · simp only [h3, if_true, decide_eq_true_eq] at hf
          rcases hf with hf | hf
          · simp [hf, hs]
          · subst hf; simp
        · simp only [h3, if_false] at hf
          have hd : kind = "date" := by
            rcases h2 with h | h | h | h
            · exact absurd (Or.inl h) h3
            · exact absurd (Or.inr (Or.inl h)) h3
            · exact absurd (Or.inr (Or.inr h)) h3
            · exact h
          simp only [hd, if_true, decide_eq_true_eq] at hf
          simp [hf, hs]
      · have h3 : ¬ (kind = "strs" ∨ kind = "enums" ∨ kind = "imap") := by
          intro h; apply h2
          rcases h with h | h | h
          · exact Or.inl h
          · exact Or.inr (Or.inl h)
          · exact Or.inr (Or.inr (Or.inl h))
        have h4 : ¬ kind = "date" := fun h => h2 (Or.inr (Or.inr (Or.inr h)))
        simp only [h3, h4, if_false, decide_eq_true_eq] at hf
        subst hf; simp

/-- fields of a message type in schema order with their kinds, and the copy form of each -/
def formsFor (fields : List (String × String)) (table : List (String × String)) : List String :=
  fields.map (fun f => (table.lookup f.1).getD "missing")

def tableOK (fields : List (String × String)) (table : List (String × String)) : Bool :=
  fields.all (fun f => formOK f.2 ((table.lookup f.1).getD "missing"))

def shapesOK : List (String × String) → List Obj → Bool
  | f :: fs, o :: os => kindShape f.2 o && shapesOK fs os
  | [], [] => true
  | _, _ => false

theorem formsFresh_of_tableOK (fields : List (String × String)) (table : List (String × String))
    (ks : List Obj) (ht : tableOK fields table = true) (hs : shapesOK fields ks = true) :
    formsFresh (formsFor fields table) ks = true := by
  induction fields generalizing ks with
  | nil => cases ks <;> simp_all [shapesOK, formsFor, formsFresh]
  | cons f fs ih =>
    cases ks with
    | nil => simp [shapesOK] at hs
    | cons o os =>
      simp only [tableOK, List.all_cons, Bool.and_eq_true] at ht
      simp only [shapesOK, Bool.and_eq_true] at hs
      simp only [formsFor, List.map_cons, formsFresh, Bool.and_eq_true]
      exact ⟨formFresh_of_formOK f.2 _ o hs.1 ht.1, ih os ht.2 hs.2⟩

/-- the Go field names of `Node` with their kinds, in schema order -/
def nodeGoFields : List (String × String) :=
  (Schema.nodeProtoNames.zip Schema.nodeAllFields).map (fun (pn, f) => (pn.1, f.2.2))

/-! ### every field of every message type is copied with a form that gives it fresh storage
    (enumerated from the regenerated schema and tables; a field added later with a bare alias,
    or not copied at all, fails here) -/

theorem node_copy_table_ok : tableOK nodeGoFields NodeFields.nodeCopyTable = true := by decide
theorem edge_copy_table_ok : tableOK Schema.edgeFields NodeFields.edgeCopyTable = true := by decide
theorem person_copy_table_ok : tableOK Schema.personFields NodeFields.personCopyTable = true := by decide
theorem extref_copy_table_ok : tableOK Schema.extRefFields NodeFields.extRefCopyTable = true := by decide

/-- **independence of a copy** (any of the four message types, given its fields and table):
    every allocation tag reachable from the copy, at every nesting level, was allocated by the
    call, so the copy shares no mutable state with its source; and the copy has the same value -/
theorem copy_independent (fields : List (String × String)) (table : List (String × String))
    (ht : tableOK fields table = true) (t : Nat) (ks : List Obj) (hs : shapesOK fields ks = true) (s : Nat) :
    (∀ x ∈ (copyMsg (formsFor fields table) (.box t ks) s).1.tags, s ≤ x) ∧
    (copyMsg (formsFor fields table) (.box t ks) s).1.erase = (Obj.box t ks).erase :=
  copyMsg_spec _ t ks s (formsFresh_of_tableOK fields table ks ht hs)

theorem node_copy_independent (t : Nat) (ks : List Obj) (hs : shapesOK nodeGoFields ks = true) (s : Nat) :
    (∀ x ∈ (copyMsg (formsFor nodeGoFields NodeFields.nodeCopyTable) (.box t ks) s).1.tags, s ≤ x) ∧
    (copyMsg (formsFor nodeGoFields NodeFields.nodeCopyTable) (.box t ks) s).1.erase = (Obj.box t ks).erase :=
  copy_independent _ _ node_copy_table_ok t ks hs s

theorem edge_copy_independent (t : Nat) (ks : List Obj) (hs : shapesOK Schema.edgeFields ks = true) (s : Nat) :
    (∀ x ∈ (copyMsg (formsFor Schema.edgeFields NodeFields.edgeCopyTable) (.box t ks) s).1.tags, s ≤ x) ∧
    (copyMsg (formsFor Schema.edgeFields NodeFields.edgeCopyTable) (.box t ks) s).1.erase = (Obj.box t ks).erase :=
  copy_independent _ _ edge_copy_table_ok t ks hs s

theorem person_copy_independent (t : Nat) (ks : List Obj) (hs : shapesOK Schema.personFields ks = true) (s : Nat) :
    (∀ x ∈ (copyMsg (formsFor Schema.personFields NodeFields.personCopyTable) (.box t ks) s).1.tags, s ≤ x) ∧
    (copyMsg (formsFor Schema.personFields NodeFields.personCopyTable) (.box t ks) s).1.erase = (Obj.box t ks).erase :=
  copy_independent _ _ person_copy_table_ok t ks hs s

theorem extref_copy_independent (t : Nat) (ks : List Obj) (hs : shapesOK Schema.extRefFields ks = true) (s : Nat) :
    (∀ x ∈ (copyMsg (formsFor Schema.extRefFields NodeFields.extRefCopyTable) (.box t ks) s).1.tags, s ≤ x) ∧
    (copyMsg (formsFor Schema.extRefFields NodeFields.extRefCopyTable) (.box t ks) s).1.erase = (Obj.box t ks).erase :=
  copy_independent _ _ extref_copy_table_ok t ks hs s

/-- **union / intersection**: a node of the result is a copy of the first operand's node whose
    fields are overwritten (by alias) with fields of a *copy* of the second operand's node; every
    tag reachable from it was allocated by the call, whatever fields `Update` takes over -/
theorem merged_node_independent (takes : List Bool) (ta tb : Nat) (ka kb : List Obj)
    (ha : shapesOK nodeGoFields ka = true) (hb : shapesOK nodeGoFields kb = true) (s : Nat) :
    let forms := formsFor nodeGoFields NodeFields.nodeCopyTable
    let ca := copyMsg forms (.box ta ka) s
    let cb := copyMsg forms (.box tb kb) ca.2
    match ca.1, cb.1 with
    | .box _ fa, .box _ fb => ∀ x ∈ tagsL (updateFields takes fa fb), s ≤ x
    | _, _ => True := by
  intro forms ca cb
  have h1 := formsFresh_of_tableOK nodeGoFields NodeFields.nodeCopyTable ka node_copy_table_ok ha
  have h2 := formsFresh_of_tableOK nodeGoFields NodeFields.nodeCopyTable kb node_copy_table_ok hb
  have s1 := copyFields_spec forms ka (s + 1) h1
  have s2 := copyFields_spec forms kb ((copyFields forms ka (s + 1)).2 + 1) h2
  show match (copyMsg forms (.box ta ka) s).1, (copyMsg forms (.box tb kb) (copyMsg forms (.box ta ka) s).2).1 with
    | .box _ fa, .box _ fb => ∀ x ∈ tagsL (updateFields takes fa fb), s ≤ x
    | _, _ => True
  simp only [copyMsg]
  intro x hx
  rcases updateFields_tags takes _ _ x hx with h | h
  · have := s1.1 x h; omega
  · have := s2.1 x h; have := s1.2.1; omega

/-- non-vacuity: an edge with two targets has the shape the theorems assume -/
example : shapesOK Schema.edgeFields
    [.leaf "5", .leaf "a", .box 7 [.leaf "b", .leaf "c"]] = true := by decide

end Protobom.C12
