/-
  C13 — Equality and checksums form a sound, order-insensitive equivalence. Property theorems only.
  `H` is the checksum function (SHA-256 in the implementation); it is a parameter, so every
  statement holds for any hash function, and agreement is stated modulo an exhibited collision.
-/
import Protobom.Proofs.Equal
import Protobom.Proofs.EdgeDiscr

namespace Protobom.C13
open Protobom Gen

/-! ### equivalence -/

theorem node_equal_refl (a : Node) : a.equal a = true := by simp [Node.equal]
theorem node_equal_symm (a b : Node) (h : a.equal b = true) : b.equal a = true := by
  simp only [Node.equal, decide_eq_true_eq] at *; exact h.symm
theorem node_equal_trans (a b c : Node) (h1 : a.equal b = true) (h2 : b.equal c = true) :
    a.equal c = true := by
  simp only [Node.equal, decide_eq_true_eq] at *; exact h1.trans h2

theorem edge_equal_refl (a : Edge) : a.equal a = true := by simp [Edge.equal]
theorem edge_equal_symm (a b : Edge) (h : a.equal b = true) : b.equal a = true := by
  simp only [Edge.equal, decide_eq_true_eq] at *; exact h.symm
theorem edge_equal_trans (a b c : Edge) (h1 : a.equal b = true) (h2 : b.equal c = true) :
    a.equal c = true := by
  simp only [Edge.equal, decide_eq_true_eq] at *; exact h1.trans h2

theorem nodelist_equal_refl (H : String → String) (a : NodeList) : NodeList.equalWith H a a = true :=
  equalWith_refl H a
theorem nodelist_equal_symm (H : String → String) (a b : NodeList) (h : NodeList.equalWith H a b = true) :
    NodeList.equalWith H b a = true := equalWith_symm H a b h
theorem nodelist_equal_trans (H : String → String) (a b c : NodeList)
    (h1 : NodeList.equalWith H a b = true) (h2 : NodeList.equalWith H b c = true) :
    NodeList.equalWith H a c = true := equalWith_trans H a b c h1 h2

/-! ### agreement with checksums (`Checksum = H ∘ flat`) -/

theorem equal_implies_checksum (H : String → String) (a b : Node) (h : a.equal b = true) :
    H a.flat = H b.flat := by
  simp only [Node.equal, decide_eq_true_eq] at h; rw [h]

/-- equal checksums mean equal nodes, unless the two flattened strings are a collision of `H` -/
theorem checksum_implies_equal_or_collision (H : String → String) (a b : Node) (h : H a.flat = H b.flat) :
    a.equal b = true ∨ (a.flat ≠ b.flat ∧ H a.flat = H b.flat) := by
  by_cases he : a.flat = b.flat
  · left; simp [Node.equal, he]
  · right; exact ⟨he, h⟩

/-! ### order-insensitivity -/

/-- permuting set-valued attributes, map entries, suppliers, originators and references of a
    node does not change its flattened string, hence neither equality nor its checksum -/
theorem node_order_insensitive (a b : Node) (h : Node.PermEq a b) : a.equal b = true := by
  simp [Node.equal, flat_permEq h]

theorem edge_order_insensitive (e f : Edge) (hs : e.src = f.src) (ht : e.ty = f.ty) (hp : e.tos.Perm f.tos) :
    e.equal f = true := by simp [Edge.equal, edge_flat_perm hs ht hp]

/-- node-list equality ignores the order of nodes (identifiers unique), edges, edge targets and roots -/
theorem nodelist_order_insensitive (H : String → String) (a b : NodeList) (hn : a.nodes.Perm b.nodes)
    (hnd : a.ids.Nodup) (es : List Edge) (he1 : a.edges.Perm es) (he2 : EdgeListEq es b.edges)
    (hr : a.roots.Perm b.roots) : NodeList.equalWith H a b = true :=
  equalWith_perm H a b hn hnd es he1 he2 hr

/-! ### discrimination -/

/-- the treatment `Node.flatString` gives each kind of attribute -/
def flatFormOk (goName : String) (k : Kind) : Bool :=
  let form := (NodeFields.flatTable.lookup (protoNameOf goName)).getD
                (if NodeFields.flatHasScalarDefault then "scalar" else "none")
  match k with
  | .str => form = "scalar"
  | .strs => form = "slice"
  | .enums => form = "slice"
  | .imap => form = "map" ∨ form = "sortedkeys"
  | .date => form = "unixdate"
  | .persons => form = "elemflat"
  | .refs => form = "elemflat"

/-- every attribute of the schema is flattened with a treatment that fits its kind (this is what
    fails when a field is added to the schema without being handled, or a case is dropped) -/
theorem flat_covers_schema : ∀ fk ∈ Schema.nodeAttrs, flatFormOk fk.1 fk.2 = true := by decide

/-- every message field the schema has is one the model knows -/
theorem schema_kinds_known : ∀ f ∈ Schema.nodeAllFields, f.2.2 ≠ "unknown" := by decide

theorem person_fields_known :
    Schema.personFields = [("Name", "str"), ("IsOrg", "bool"), ("Email", "str"), ("Url", "str"),
                           ("Phone", "str"), ("Contacts", "persons")] := by decide

theorem extref_fields_known :
    Schema.extRefFields = [("Url", "str"), ("Comment", "str"), ("Authority", "str"), ("Hashes", "imap"),
                           ("Type", "enum")] := by decide

theorem string_append_left_cancel (p s t : String) (h : p ++ s = p ++ t) : s = t := by
  have := congrArg String.toList h
  simp only [String.toList_append] at this
  exact String.toList_inj.mp (List.append_cancel_left this)

/-- PARTIAL (pair level, scalar attributes): two different values of a scalar attribute yield
    different pairs. Injectivity of the *joined* string is not proved: values containing the
    separators (`:`, `+`, brackets, field-name markers) and multi-entry hash maps can collide
    (known finding KF-C13-separators); single-attribute discrimination over every schema field is
    decided by the correspondence stream `eq` and its oracle. -/
theorem scalar_pair_discriminates_partial (f : String) (s t : String) (hs : s ≠ "") (ht : t ≠ "")
    (hform : flatFormOk f .str = true) (h : attrPairs f (.str s) = attrPairs f (.str t)) : s = t := by
  unfold flatFormOk at hform
  simp only [decide_eq_true_eq] at hform
  unfold attrPairs at h
  simp only [hform, Val.isEmpty, beq_iff_eq, hs, ht, if_false, if_true, List.cons.injEq, and_true] at h
  exact string_append_left_cancel _ s t h

/-- the known finding, as a kernel-checked witness: two hash maps that differ flatten to the same
    string (`flatStringMap` concatenates the entries without a separator), so two nodes that
    differ only in them compare equal -/
theorem finding_hash_map_collision :
    flatMap' [(1, "a"), (12, "c")] = flatMap' [(1, "a1"), (2, "c")] := by
  have w1 : flatMap' [(1, "a"), (12, "c")] = "1:a12:c" := by
    simp [flatMap', sortStrings, List.mergeSort, List.MergeSort.Internal.splitInTwo, List.merge,
      concatStrings, List.lookup]
    decide
  have w2 : flatMap' [(1, "a1"), (2, "c")] = "1:a12:c" := by
    simp [flatMap', sortStrings, List.mergeSort, List.MergeSort.Internal.splitInTwo, List.merge,
      concatStrings, List.lookup]
    decide
  rw [w1, w2]

/-! ### edges: equality discriminates

For nodes the flattened string is not injective (the recorded separator finding above). For edges it
is, as soon as the identifiers are free of the two separator characters the format uses. -/

/-- **edge equality is exactly "same source, same type, same multiset of targets"** for edges of a
    type the schema defines whose source has no `:` and whose targets are non-empty and have no `+`:
    in particular an edge with a repeated target never equals an edge that repeats another one, and
    the relation cannot depend on which operand is the receiver -/
theorem edge_equal_iff (e f : Edge)
    (hs : ':' ∉ e.src.toList) (hs' : ':' ∉ f.src.toList)
    (ht : e.ty ∈ Schema.edgeTypes.map (·.2)) (ht' : f.ty ∈ Schema.edgeTypes.map (·.2))
    (hto : ∀ t ∈ e.tos, t ≠ "" ∧ '+' ∉ t.toList) (hto' : ∀ t ∈ f.tos, t ≠ "" ∧ '+' ∉ t.toList) :
    e.equal f = true ↔ (e.src = f.src ∧ e.ty = f.ty ∧ e.tos.Perm f.tos) := by
  constructor
  · intro h
    exact edge_flat_discriminates e f hs hs' ht ht' hto hto' (by simpa [Edge.equal] using h)
  · rintro ⟨h1, h2, h3⟩
    exact edge_order_insensitive e f h1 h2 h3

/-- non-vacuity and the case the property text names: `[a, a, b]` against `[a, b, b]` -/
example : ({ src := "app", ty := 5, tos := ["lib-a", "lib-a", "lib-b"] } : Edge).equal
    { src := "app", ty := 5, tos := ["lib-a", "lib-b", "lib-b"] } = false := by
  rw [Bool.eq_false_iff]
  intro h
  have := (edge_equal_iff _ _ (by decide) (by decide) (by decide) (by decide) (by decide) (by decide)).mp h
  have hc := this.2.2.count_eq "lib-a"
  simp at hc

example : (5 : Int) ∈ Schema.edgeTypes.map (·.2) ∧ ':' ∉ "app".toList ∧
    (∀ t ∈ ["lib-a", "lib-a", "lib-b"], t ≠ "" ∧ '+' ∉ t.toList) := by decide

end Protobom.C13
