/-
  C14 — Node diff is sound, complete and reconstructive. Property theorems only.
  Hypothesis `typed`: the attribute list follows the schema and maps are key-unique (they model Go
  maps); every node that comes over the line protocol is typed.
-/
import Protobom.Proofs.Diff

namespace Protobom.C14
open Protobom Gen

/-- `Node.Diff` compares every attribute of the schema with the helper its kind calls for
    (regenerated table, checked by evaluation; fails when a field is added or dropped) -/
theorem diff_covers_schema : ∀ fk ∈ Schema.nodeAttrs, diffHandles fk.1 fk.2 = true := by decide

theorem diff_handles_id_and_type :
    NodeFields.diffTable.contains ("Id", "diff") = true ∧ NodeFields.diffTable.contains ("Type", "diff") = true := by
  decide

theorem id_handled : (("Id", "diff") ∈ NodeFields.diffTable) := by decide
theorem type_handled : (("Type", "diff") ∈ NodeFields.diffTable) := by decide

/-- what "some attribute differs" means -/
def Agree (n m : Node) : Prop := n.id = m.id ∧ n.typ = m.typ ∧ AttrsEq Schema.nodeAttrs n.attrs m.attrs

theorem count_eq (n m : Node) :
    (n.diffRaw m).count = (diffStr n.id m.id).2.2 + (diffInt n.typ m.typ).2.2 +
      ((diffAttrs Schema.nodeAttrs n.attrs m.attrs).map (·.2.2)).sum := by
  simp [Node.diffRaw, id_handled, type_handled, List.map_map, Function.comp_def]

/-- sound and complete: no difference is reported exactly when every attribute agrees
    (as sets for list- and map-valued attributes, to the second for dates) -/
theorem diff_none_iff (n m : Node) (hn : n.typed) (hm : m.typed) : n.diff m = none ↔ Agree n m := by
  have hc := diffAttrs_counts Schema.nodeAttrs n.attrs m.attrs diff_covers_schema hn hm
  have hz := counts_sum_zero _ _ _ _ hc
  unfold Node.diff
  simp only
  rw [count_eq]
  constructor
  · intro h
    split at h
    · cases h
    · rename_i hgt
      have h0 : (diffStr n.id m.id).2.2 + (diffInt n.typ m.typ).2.2 +
          ((diffAttrs Schema.nodeAttrs n.attrs m.attrs).map (·.2.2)).sum = 0 := by omega
      refine ⟨(diffStr_zero _ _).mp (by omega), (diffInt_zero _ _).mp (by omega), hz.mp (by omega)⟩
  · rintro ⟨h1, h2, h3⟩
    have e1 := (diffStr_zero n.id m.id).mpr h1
    have e2 := (diffInt_zero n.typ m.typ).mpr h2
    have e3 := hz.mpr h3
    rw [e1, e2, e3]
    simp

/-- diffing a node with itself reports no difference -/
theorem diff_self (n : Node) (hn : n.typed) : n.diff n = none :=
  (diff_none_iff n n hn hn).mpr ⟨rfl, rfl, attrsEq_refl_of_typed _ _ hn⟩

/-- each differing attribute is counted exactly once: the count is the sum of one 0/1 entry per
    attribute (identifier and type included), 0 exactly when that attribute agrees -/
theorem diff_counts_each_once (n m : Node) (hn : n.typed) (hm : m.typed) :
    ∃ ci ct : Nat, ∃ cs : List Nat,
      (n.diffRaw m).count = ci + ct + cs.sum ∧
      (ci ≤ 1 ∧ (ci = 0 ↔ n.id = m.id)) ∧ (ct ≤ 1 ∧ (ct = 0 ↔ n.typ = m.typ)) ∧
      CountsSpec Schema.nodeAttrs n.attrs m.attrs cs := by
  refine ⟨_, _, _, count_eq n m, ⟨diffStr_le _ _, diffStr_zero _ _⟩, ⟨?_, diffInt_zero _ _⟩,
          diffAttrs_counts _ _ _ diff_covers_schema hn hm⟩
  unfold diffInt
  by_cases h : n.typ = m.typ
  · simp [h]
  · by_cases hb : m.typ = 0
    · rw [hb] at h; simp [h, hb]
    · simp [h, hb]

/-- reconstructive: the reported additions and removals rebuild the second node's attributes
    from the first node -/
theorem diff_reconstructs (n m : Node) (hn : n.typed) (hm : m.typed) :
    Agree (n.applyDiff (n.diff m)) m := by
  cases hd : n.diff m with
  | none =>
    simp only [Node.applyDiff]
    exact (diff_none_iff n m hn hm).mp hd
  | some d =>
    have hd' : d = n.diffRaw m := by
      unfold Node.diff at hd
      simp only at hd
      split at hd
      · simp only [Option.some.injEq] at hd; exact hd.symm
      · cases hd
    subst hd'
    simp only [Node.applyDiff, Agree, Node.diffRaw, List.contains_iff_mem, id_handled, type_handled,
      if_true, List.map_map]
    refine ⟨diffStr_apply _ _, diffInt_apply _ _, ?_⟩
    have := diffAttrs_apply Schema.nodeAttrs n.attrs m.attrs diff_covers_schema hn hm
    simpa [List.map_map, Function.comp_def] using this

/-- non-vacuity: a node with one attribute of every kind populated is typed -/
example : (AttrsTyped [("Name", Kind.str), ("Licenses", Kind.strs), ("Hashes", Kind.imap), ("ReleaseDate", Kind.date)]
    [.str "x", .strs ["MIT", "MIT"], .imap [(1, "aa"), (2, "")], .date (some (1700000000, 5))]) := by
  simp [AttrsTyped, Val.hasKind, Val.wellFormed, KeyUnique]

end Protobom.C14
