/-
  C15 — Sub-graph extraction computes bounded reachability and terminates. Property theorems only.

  Termination on every graph (cyclic, self-referential, ill-formed) is part of the *definitions*:
  `NodeList.reach` is accepted by Lean only with its well-founded measure (number of identifiers
  not yet visited, then stack length); `descLoop` is structural in the depth.
-/
import Protobom.Proofs.Descend

namespace Protobom.C15
open Protobom

/-! ### full graph: unbounded reachability; other roots are left out and never traversed through -/

theorem nodeGraph_nodes (nl : NodeList) (id : String) (r : NodeList) (h : nl.nodeGraph id = some r)
    (z : String) : z ∈ r.ids ↔ Path nl nl.roots id z := nodeGraph_ids nl id r h z

theorem nodeGraph_edgeset (nl : NodeList) (id : String) (r : NodeList) (h : nl.nodeGraph id = some r)
    (s : String) (t : Int) (d : String) :
    r.HasEdge s t d ↔ nl.HasEdge s t d ∧ s ∈ r.ids ∧ d ∈ r.ids := nodeGraph_edges nl id r h s t d

theorem nodeGraph_sole_root (nl : NodeList) (id : String) (r : NodeList) (h : nl.nodeGraph id = some r) :
    r.roots = [id] := nodeGraph_roots nl id r h

/-- a result is returned exactly when the start node exists -/
theorem nodeGraph_defined (nl : NodeList) (id : String) : (nl.nodeGraph id).isSome ↔ id ∈ nl.ids := by
  unfold NodeList.nodeGraph; split <;> simp [*]

/-- each returned node appears once -/
theorem nodeGraph_nodup (nl : NodeList) (id : String) (r : NodeList) (h : nl.nodeGraph id = some r) :
    r.ids.Nodup := (nodeGraph_wf nl id r h).nodup

/-! ### siblings: one hop -/

theorem nodeSiblings_nodes (nl : NodeList) (id : String) (r : NodeList) (h : nl.nodeSiblings id = some r)
    (hin : id ∈ nl.ids) (z : String) :
    z ∈ r.ids ↔ z = id ∨ (∃ t, nl.HasEdge id t z) ∧ z ∈ nl.ids := by
  rw [nodeSiblings_ids nl id r h hin z]
  have hne : id ≠ "" := by
    intro h0; subst h0; simp [NodeList.nodeSiblings] at h
  apply or_congr Iff.rfl
  simp only [NodeList.succ, hne, if_false, List.mem_filter, List.mem_flatMap, decide_eq_true_eq,
    NodeList.HasEdge, HasEdgeL]
  constructor
  · rintro ⟨⟨e, ⟨he, hs⟩, hz⟩, hi⟩; exact ⟨⟨e.ty, e, he, hs, rfl, hz⟩, hi⟩
  · rintro ⟨⟨t, e, he, hs, _, hz⟩, hi⟩; exact ⟨⟨e, ⟨he, hs⟩, hz⟩, hi⟩

theorem nodeSiblings_edgeset (nl : NodeList) (id : String) (r : NodeList) (h : nl.nodeSiblings id = some r)
    (hin : id ∈ nl.ids) (s : String) (t : Int) (d : String) :
    r.HasEdge s t d ↔ nl.HasEdge s t d ∧ s = id ∧ d ∈ r.ids := nodeSiblings_edges nl id r h hin s t d

theorem nodeSiblings_sole_root (nl : NodeList) (id : String) (r : NodeList)
    (h : nl.nodeSiblings id = some r) (hin : id ∈ nl.ids) : r.roots = [id] := by
  unfold NodeList.nodeSiblings at h
  split at h
  · cases h
  · simp only [hin, if_true, Option.some.injEq] at h; subst h; rfl

/-! ### descendants: within the requested depth (the start node is level one) -/

/-- exactly the nodes reached within fewer than `depth` hops, where another root element may be
    reached but is never traversed through (`ReachIn` leaves a node only if it is the start node
    or not a root) -/
theorem nodeDescendants_nodes (nl : NodeList) (id : String) (depth : Int) (hin : id ∈ nl.ids) (z : String) :
    z ∈ (nl.nodeDescendants id depth).ids ↔ ∃ k, k < depth.toNat ∧ ReachIn nl id k z :=
  nodeDescendants_ids nl id depth hin z

/-- monotone in the depth -/
theorem nodeDescendants_monotone (nl : NodeList) (id : String) (d1 d2 : Int) (h : d1 ≤ d2) (z : String)
    (hz : z ∈ (nl.nodeDescendants id d1).ids) : z ∈ (nl.nodeDescendants id d2).ids := by
  by_cases hin : id ∈ nl.ids
  · obtain ⟨k, hk, hr⟩ := (nodeDescendants_ids nl id d1 hin z).mp hz
    exact (nodeDescendants_ids nl id d2 hin z).mpr ⟨k, by omega, hr⟩
  · unfold NodeList.nodeDescendants at hz
    rw [if_neg hin] at hz
    simp [NodeList.ids] at hz

/-- with depth one the result is the start node alone -/
theorem nodeDescendants_depth_one (nl : NodeList) (id : String) (hin : id ∈ nl.ids) (z : String) :
    z ∈ (nl.nodeDescendants id 1).ids ↔ z = id := by
  rw [nodeDescendants_ids nl id 1 hin z]
  constructor
  · rintro ⟨k, hk, hr⟩
    have : k = 0 := by simp at hk; omega
    subst this; exact reachIn_zero hr
  · rintro rfl; exact ⟨0, by simp, ReachIn.zero⟩

theorem nodeDescendants_edgeset (nl : NodeList) (id : String) (depth : Int) (s : String) (t : Int) (d : String) :
    (nl.nodeDescendants id depth).HasEdge s t d ↔
      nl.HasEdge s t d ∧ s ∈ (nl.nodeDescendants id depth).ids ∧ d ∈ (nl.nodeDescendants id depth).ids :=
  nodeDescendants_edges nl id depth s t d

theorem nodeDescendants_root (nl : NodeList) (id : String) (depth : Int) (r : String)
    (h : r ∈ (nl.nodeDescendants id depth).roots) : r = id := nodeDescendants_roots nl id depth r h

theorem nodeDescendants_nodup (nl : NodeList) (id : String) (depth : Int) :
    (nl.nodeDescendants id depth).ids.Nodup := (nodeDescendants_wf nl id depth).nodup

/-! ### independence of node and edge order

  `Path`, `HasEdge` and membership in `ids` mention the node list only through sets, so two lists
  with the same identifier set, root set and edge relation have the same reachability relation. -/

theorem succ_congr (a b : NodeList) (hi : ∀ x, x ∈ a.ids ↔ x ∈ b.ids)
    (he : ∀ s t d, a.HasEdge s t d ↔ b.HasEdge s t d) (x y : String) : y ∈ a.succ x ↔ y ∈ b.succ x := by
  unfold NodeList.succ
  split
  · simp
  · simp only [List.mem_filter, List.mem_flatMap, decide_eq_true_eq]
    constructor
    · rintro ⟨⟨e, ⟨he1, hs⟩, hy⟩, hyi⟩
      obtain ⟨e', he', hs', _, hy'⟩ := (he x e.ty y).mp ⟨e, he1, hs, rfl, hy⟩
      exact ⟨⟨e', ⟨he', hs'⟩, hy'⟩, (hi y).mp hyi⟩
    · rintro ⟨⟨e, ⟨he1, hs⟩, hy⟩, hyi⟩
      obtain ⟨e', he', hs', _, hy'⟩ := (he x e.ty y).mpr ⟨e, he1, hs, rfl, hy⟩
      exact ⟨⟨e', ⟨he', hs'⟩, hy'⟩, (hi y).mpr hyi⟩

theorem path_congr (a b : NodeList) (h : a ≃ₙ b) (x z : String) :
    Path a a.roots x z → Path b b.roots x z := by
  intro hp
  induction hp with
  | refl => exact Path.refl _
  | step hs ha _ ih =>
    exact Path.step ((succ_congr a b h.ids h.edges _ _).mp hs)
      ⟨(h.ids _).mp ha.1, fun hr => ha.2 ((h.roots _).mpr hr)⟩ ih

/-- the full-graph extraction returns the same node set for equivalent (e.g. reordered) lists -/
theorem nodeGraph_order_independent (a b : NodeList) (h : a ≃ₙ b) (id : String) (ra rb : NodeList)
    (ha : a.nodeGraph id = some ra) (hb : b.nodeGraph id = some rb) (z : String) :
    z ∈ ra.ids ↔ z ∈ rb.ids := by
  rw [nodeGraph_ids a id ra ha, nodeGraph_ids b id rb hb]
  exact ⟨path_congr a b h id z, path_congr b a ⟨fun x => (h.ids x).symm, fun x => (h.roots x).symm,
    fun s t d => (h.edges s t d).symm⟩ id z⟩

theorem targets_congr (a b : NodeList) (hi : ∀ x, x ∈ a.ids ↔ x ∈ b.ids)
    (he : ∀ s t d, a.HasEdge s t d ↔ b.HasEdge s t d) (x y : String) : y ∈ a.targets x ↔ y ∈ b.targets x := by
  unfold NodeList.targets
  simp only [List.mem_filter, List.mem_flatMap, decide_eq_true_eq]
  constructor
  · rintro ⟨⟨e, ⟨he1, hs⟩, hy⟩, hyi⟩
    obtain ⟨e', he', hs', _, hy'⟩ := (he x e.ty y).mp ⟨e, he1, hs, rfl, hy⟩
    exact ⟨⟨e', ⟨he', hs'⟩, hy'⟩, (hi y).mp hyi⟩
  · rintro ⟨⟨e, ⟨he1, hs⟩, hy⟩, hyi⟩
    obtain ⟨e', he', hs', _, hy'⟩ := (he x e.ty y).mpr ⟨e, he1, hs, rfl, hy⟩
    exact ⟨⟨e', ⟨he', hs'⟩, hy'⟩, (hi y).mpr hyi⟩

theorem reachIn_congr (a b : NodeList) (h : a ≃ₙ b) (s : String) (k : Nat) (z : String) :
    ReachIn a s k z → ReachIn b s k z := by
  intro hr
  induction hr with
  | zero => exact ReachIn.zero
  | succ _ hx hz ih =>
    exact ReachIn.succ ih (hx.imp id (fun hnr hr => hnr ((h.roots _).mpr hr)))
      ((targets_congr a b h.ids h.edges _ _).mp hz)

theorem equiv_symm {a b : NodeList} (h : a ≃ₙ b) : b ≃ₙ a :=
  ⟨fun x => (h.ids x).symm, fun x => (h.roots x).symm, fun s t d => (h.edges s t d).symm⟩

/-- the bounded extraction returns the same node set, and the same edge relation, for equivalent
    (e.g. reordered) lists, at every depth -/
theorem nodeDescendants_order_independent (a b : NodeList) (h : a ≃ₙ b) (id : String) (depth : Int)
    (hin : id ∈ a.ids) :
    (∀ z, z ∈ (a.nodeDescendants id depth).ids ↔ z ∈ (b.nodeDescendants id depth).ids) ∧
    (∀ s t d, (a.nodeDescendants id depth).HasEdge s t d ↔ (b.nodeDescendants id depth).HasEdge s t d) := by
  have hinb : id ∈ b.ids := (h.ids id).mp hin
  have hids : ∀ z, z ∈ (a.nodeDescendants id depth).ids ↔ z ∈ (b.nodeDescendants id depth).ids := by
    intro z
    rw [nodeDescendants_ids a id depth hin z, nodeDescendants_ids b id depth hinb z]
    constructor
    · rintro ⟨k, hk, hr⟩; exact ⟨k, hk, reachIn_congr a b h id k z hr⟩
    · rintro ⟨k, hk, hr⟩; exact ⟨k, hk, reachIn_congr b a (equiv_symm h) id k z hr⟩
  refine ⟨hids, ?_⟩
  intro s t d
  rw [nodeDescendants_edges, nodeDescendants_edges, h.edges s t d, hids s, hids d]

/-- the one-hop extraction likewise -/
theorem nodeSiblings_order_independent (a b : NodeList) (h : a ≃ₙ b) (id : String) (ra rb : NodeList)
    (ha : a.nodeSiblings id = some ra) (hb : b.nodeSiblings id = some rb) (hin : id ∈ a.ids) :
    (∀ z, z ∈ ra.ids ↔ z ∈ rb.ids) ∧ (∀ s t d, ra.HasEdge s t d ↔ rb.HasEdge s t d) := by
  have hinb : id ∈ b.ids := (h.ids id).mp hin
  have hids : ∀ z, z ∈ ra.ids ↔ z ∈ rb.ids := by
    intro z
    rw [nodeSiblings_ids a id ra ha hin z, nodeSiblings_ids b id rb hb hinb z, succ_congr a b h.ids h.edges id z]
  refine ⟨hids, ?_⟩
  intro s t d
  rw [nodeSiblings_edges a id ra ha hin, nodeSiblings_edges b id rb hb hinb, h.edges s t d, hids d]

/-- and the full-graph extraction returns the same edge relation too -/
theorem nodeGraph_edges_order_independent (a b : NodeList) (h : a ≃ₙ b) (id : String) (ra rb : NodeList)
    (ha : a.nodeGraph id = some ra) (hb : b.nodeGraph id = some rb) (s : String) (t : Int) (d : String) :
    ra.HasEdge s t d ↔ rb.HasEdge s t d := by
  rw [nodeGraph_edges a id ra ha, nodeGraph_edges b id rb hb, h.edges s t d,
    nodeGraph_order_independent a b h id ra rb ha hb s, nodeGraph_order_independent a b h id ra rb ha hb d]

/-- non-vacuity: on a two-node cycle with a self-loop the full graph of `a` is `{a, b}` -/
example : ∃ r, ({ nodes := [{ id := "a" }, { id := "b" }],
                  edges := [{ ty := 5, src := "a", tos := ["b", "a"] }, { ty := 10, src := "b", tos := ["a"] }],
                  roots := ["a"] } : NodeList).nodeGraph "a" = some r := by
  simp [NodeList.nodeGraph, NodeList.ids]

end Protobom.C15
