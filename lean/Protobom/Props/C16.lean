/-
  C16 — Lookups and node matching return exactly the documented matches. Property theorems only.
-/
import Protobom.Proofs.Match

namespace Protobom.C16
open Protobom

/-! ### lookups return precisely the nodes satisfying the criterion -/

theorem byName_exact (nl : NodeList) (name : String) (n : Node) :
    n ∈ nl.getNodesByName name ↔ n ∈ nl.nodes ∧ n.name = name := by
  simp [NodeList.getNodesByName]

/-- the result keeps the list's order and multiplicity: it *is* the filter -/
theorem byName_is_filter (nl : NodeList) (name : String) :
    nl.getNodesByName name = nl.nodes.filter (·.name = name) := rfl

theorem byID_exact (nl : NodeList) (id : String) (n : Node) (h : nl.getNodeByID id = some n) :
    n ∈ nl.nodes ∧ n.id = id := ⟨(getNodeByID_id nl id n h).2, (getNodeByID_id nl id n h).1⟩

theorem byID_complete (nl : NodeList) (id : String) (h : id ∈ nl.ids) : ∃ n, nl.getNodeByID id = some n :=
  let ⟨n, hn, _, _⟩ := getNodeByID_some nl id h; ⟨n, hn⟩

theorem byID_none (nl : NodeList) (id : String) (h : id ∉ nl.ids) : nl.getNodeByID id = none :=
  getNodeByID_none nl id h

/-- with unique identifiers the lookup returns *the* node with that identifier -/
theorem byID_unique (nl : NodeList) (hnd : nl.ids.Nodup) (p : Node) (hp : p ∈ nl.nodes) :
    nl.getNodeByID p.id = some p := by
  obtain ⟨n, h1, h2, h3⟩ := getNodeByID_some nl p.id (List.mem_map.mpr ⟨p, hp, rfl⟩)
  have : n = p := nodup_map_inj (fun (x : Node) => x.id) nl.nodes hnd h3 hp h2
  rw [h1, this]

theorem byIdentifier_exact (nl : NodeList) (t : Int) (v : String) (n : Node) :
    n ∈ nl.getNodesByIdentifierNum t v ↔ n ∈ nl.nodes ∧ n.identifiers.lookup t = some v := by
  simp [NodeList.getNodesByIdentifierNum]

theorem purlType_exact (nl : NodeList) (t : String) (n : Node) :
    n ∈ (nl.getNodesByPurlType t).nodes ↔
      n ∈ nl.nodes ∧ (("pkg:" ++ t ++ "/").isPrefixOf n.purl ∨ ("pkg:/" ++ t ++ "/").isPrefixOf n.purl) := by
  simp [NodeList.getNodesByPurlType, NodeList.cleanEdges]

/-- root membership: with unique identifiers the root lookup is exactly the filter -/
theorem rootNodes_exact (nl : NodeList) (hnd : nl.ids.Nodup) :
    nl.getRootNodes = nl.nodes.filter (·.id ∈ nl.roots) := by
  unfold NodeList.getRootNodes
  apply List.take_of_length_le
  -- at most one node per distinct root identifier
  have h1 : ((nl.nodes.filter (·.id ∈ nl.roots)).map (·.id)).Nodup :=
    List.Nodup.sublist (List.Sublist.map _ List.filter_sublist) hnd
  have h2 : ∀ x ∈ (nl.nodes.filter (·.id ∈ nl.roots)).map (·.id), x ∈ nl.roots.eraseDups := by
    intro x hx
    obtain ⟨n, hn, rfl⟩ := List.mem_map.mp hx
    simpa using (List.mem_filter.mp hn).2
  have := List.Nodup.length_le_of_subset h1 h2   -- pigeonhole (see Proofs/ListLemmas)
  simpa using this

/-- without the uniqueness hypothesis the lookup still returns only root nodes of the list -/
theorem rootNodes_sound (nl : NodeList) (n : Node) (h : n ∈ nl.getRootNodes) :
    n ∈ nl.nodes ∧ n.id ∈ nl.roots := by
  unfold NodeList.getRootNodes at h
  have := List.mem_of_mem_take h
  simpa using this

/-! ### node matching follows the documented rule -/

theorem matching_follows_rule (nl : NodeList) (p : Node) : nl.getMatchingNode p = specMatch nl p :=
  getMatchingNode_eq_spec nl p

/-- never returns a node outside the list -/
theorem matching_in_list (nl : NodeList) (p n : Node) (h : nl.getMatchingNode p = .found n) :
    n ∈ nl.nodes := specMatch_mem nl p n (getMatchingNode_eq_spec nl p ▸ h)

/-- the outcome does not depend on the order of the nodes -/
theorem matching_order_independent (a b : NodeList) (p : Node) (h : a.nodes.Perm b.nodes) :
    a.getMatchingNode p = b.getMatchingNode p := by
  rw [getMatchingNode_eq_spec, getMatchingNode_eq_spec]; exact specMatch_perm a b p h

/-- … nor on the iteration order of the probe's hash map -/
theorem hashesMatch_order_independent (n : Node) (th th' : List (Int × String)) (h : th.Perm th') :
    n.hashesMatch th = n.hashesMatch th' := hashesMatchL_perm n.hashes th th' h

end Protobom.C16
