/-
  C17 — Registries, detection, parsing and writing are safe under concurrency.
  Generic theorems (`Proofs/Conc.lean`): the locking discipline excludes data races in every
  reachable configuration of any number of threads, and write-locked sections are exclusive.
  Instantiation: the discipline is checked on the access records that the extractor reads from the
  current source (`Gen/Access.lean`).
-/
import Protobom.Proofs.Conc
import Protobom.Gen.Access

namespace Protobom.C17
open Protobom.Conc Gen

/-! ### an executable form of the discipline -/

/-- runs the discipline along an event list; `none` = violated, `some h` = locks held at the end -/
def runWL (prot : String → String) : List (String × Mode) → List Ev → Option (List (String × Mode))
  | held, [] => some held
  | held, .lock l m :: r => if held.any (·.1 = l) then none else runWL prot ((l, m) :: held) r
  | held, .unlock l m :: r => if (l, m) ∈ held then runWL prot (held.erase (l, m)) r else none
  | held, .read x :: r => if held.any (·.1 = prot x) then runWL prot held r else none
  | held, .write x :: r => if (prot x, Mode.W) ∈ held then runWL prot held r else none

theorem runWL_sound (prot : String → String) : ∀ (evs : List Ev) (held h' : List (String × Mode)),
    runWL prot held evs = some h' → WL prot held evs
  | [], _, _, _ => trivial
  | .lock l m :: r, held, h', h => by
    simp only [runWL] at h
    split at h
    · cases h
    · rename_i hn
      refine ⟨?_, runWL_sound prot r _ h' h⟩
      intro m' hm
      apply hn
      simp only [List.any_eq_true, decide_eq_true_eq]
      exact ⟨(l, m'), hm, rfl⟩
  | .unlock l m :: r, held, h', h => by
    simp only [runWL] at h
    split at h
    · rename_i hm; exact ⟨hm, runWL_sound prot r _ h' h⟩
    · cases h
  | .read x :: r, held, h', h => by
    simp only [runWL] at h
    split at h
    · rename_i hm
      simp only [List.any_eq_true, decide_eq_true_eq] at hm
      obtain ⟨⟨l, m⟩, hmem, hl⟩ := hm
      simp only at hl
      exact ⟨⟨m, hl ▸ hmem⟩, runWL_sound prot r _ h' h⟩
    · cases h
  | .write x :: r, held, h', h => by
    simp only [runWL] at h
    split at h
    · rename_i hm; exact ⟨hm, runWL_sound prot r _ h' h⟩
    · cases h

theorem runWL_append (prot : String → String) : ∀ (a b : List Ev) (held : List (String × Mode)),
    runWL prot held (a ++ b) = (runWL prot held a).bind (fun h => runWL prot h b)
  | [], b, held => rfl
  | .lock l m :: r, b, held => by
    simp only [List.cons_append, runWL]
    split
    · rfl
    · exact runWL_append prot r b _
  | .unlock l m :: r, b, held => by
    simp only [List.cons_append, runWL]
    split
    · exact runWL_append prot r b _
    · rfl
  | .read x :: r, b, held => by
    simp only [List.cons_append, runWL]
    split
    · exact runWL_append prot r b _
    · rfl
  | .write x :: r, b, held => by
    simp only [List.cons_append, runWL]
    split
    · exact runWL_append prot r b _
    · rfl

/-- programs that keep the discipline and release what they take can be chained at will -/
theorem balanced_flatMap (prot : String → String) (progOf : String → List Ev) (calls : List String)
    (h : ∀ f ∈ calls, runWL prot [] (progOf f) = some []) : runWL prot [] (calls.flatMap progOf) = some [] := by
  induction calls with
  | nil => rfl
  | cons f fs ih =>
    rw [List.flatMap_cons, runWL_append, h f List.mem_cons_self]
    exact ih (fun g hg => h g (List.mem_cons_of_mem _ hg))

/-! ### the reader's registry, as the source has it now -/

def prot : String → String
  | "unserializers" => "regMtx"
  | x => x ++ ":unprotected"

def modeOf : String → Mode
  | "W" => .W
  | _ => .R

/-- the event program of an entry point, rebuilt from its access records: per critical section,
    lock, the recorded accesses in order, unlock -/
def progOf (fn : String) : List Ev :=
  let rs := Access.records.filter (fun r => r.pkg = "reader" ∧ r.fn = fn ∧ r.var = "unserializers")
  let sections := (rs.flatMap (·.locks)).eraseDups
  let unlocked := (rs.filter (fun r => r.locks = [])).map (fun r => if r.write then Ev.write r.var else Ev.read r.var)
  sections.flatMap (fun s =>
    [Ev.lock s.1 (modeOf s.2.1)] ++
    ((rs.filter (fun r => s ∈ r.locks)).map (fun r => if r.write then Ev.write r.var else Ev.read r.var)) ++
    [Ev.unlock s.1 (modeOf s.2.1)]) ++ unlocked

def registryEntryPoints : List String := ["RegisterUnserializer", "UnregisterUnserializer", "GetFormatUnserializer"]

/-- every registry entry point keeps the discipline and is balanced -/
theorem entry_points_well_locked : ∀ f ∈ registryEntryPoints, runWL prot [] (progOf f) = some [] := by decide

/-- … and performs all its accesses to the registry inside ONE critical section (a lookup is not
    split into a presence check and a fetch under separate lock acquisitions) -/
theorem entry_points_atomic : ∀ f ∈ registryEntryPoints,
    ((Access.records.filter (fun r => r.pkg = "reader" ∧ r.fn = f ∧ r.var = "unserializers")).map (·.locks)).eraseDups.length = 1 := by
  decide

/-- every function that touches the registry at all is one of the entry points or `init` -/
theorem registry_touched_only_by_entry_points :
    ∀ r ∈ Access.records, r.var = "unserializers" → r.fn ∈ "init" :: registryEntryPoints := by decide

/-- the remaining package-level state of reader, writer, formats and storage: synchronisation
    objects whose operations are atomic by contract, or variables no function writes after `init` -/
def classify (v : String × String × String) : String :=
  if v.2.2 ∈ ["sync.RWMutex", "sync.Once", "sync.Map"] then "sync"
  else if (v.1, v.2.1) = ("reader", "unserializers") then "lock-protected"
  else if Access.records.all (fun r => !(r.pkg = v.1 ∧ r.var = v.2.1 ∧ r.write ∧ r.fn ≠ "init")) then "read-only"
  else "unclassified"

theorem package_state_classified : ∀ v ∈ Access.varTypes, classify v ≠ "unclassified" := by decide

theorem package_state_inventory :
    Access.varTypes.map (fun v => (v.1, v.2.1, classify v)) =
      [("reader", "defaultOptions", "read-only"), ("reader", "defaultUnserializeOptions", "read-only"),
       ("reader", "regMtx", "sync"), ("reader", "unserializers", "lock-protected"),
       ("writer", "defaultOptions", "read-only"), ("writer", "once", "sync"), ("writer", "serializers", "sync"),
       ("formats", "List", "read-only"), ("formats", "ListFormats", "read-only"),
       ("formats", "sniffFormats", "read-only")] := by decide

/-! ### the property -/

/-- **no data race**: any number of goroutines, each making any sequence of registry calls, in any
    interleaving: no reachable configuration has two threads about to touch the registry map with
    one of them writing -/
theorem registry_race_free (threads : List (List String))
    (hcalls : ∀ t ∈ threads, ∀ f ∈ t, f ∈ registryEntryPoints) (c : Cfg)
    (hr : Reach (initCfg (threads.map (fun t => t.flatMap progOf))) c) : ¬ Race c := by
  apply well_locked_race_free prot _ _ c hr
  intro p hp
  simp only [List.mem_map] at hp
  obtain ⟨t, ht, rfl⟩ := hp
  exact runWL_sound prot _ [] [] (balanced_flatMap prot progOf t
    (fun f hf => entry_points_well_locked f (hcalls t ht f hf)))

/-- **registration and removal are exclusive**: while a goroutine is inside the write-locked
    section of Register/Unregister, no other goroutine is inside any section of the registry -/
theorem registry_writers_exclusive (threads : List (List String))
    (hcalls : ∀ t ∈ threads, ∀ f ∈ t, f ∈ registryEntryPoints) (c : Cfg)
    (hr : Reach (initCfg (threads.map (fun t => t.flatMap progOf))) c) : Excl c := by
  apply critical_sections_exclusive prot _ _ c hr
  intro p hp
  simp only [List.mem_map] at hp
  obtain ⟨t, ht, rfl⟩ := hp
  exact runWL_sound prot _ [] [] (balanced_flatMap prot progOf t
    (fun f hf => entry_points_well_locked f (hcalls t ht f hf)))

/-! ### sequential results: critical sections as atomic steps -/

abbrev Reg := List (String × String)

inductive Call where
  | register (f d : String)
  | unregister (f : String)
  | lookup (f : String)
deriving Repr, DecidableEq

/-- one critical section -/
def applyCall (r : Reg) : Call → Reg × Option String
  | .register f d => ((f, d) :: r.filter (·.1 ≠ f), none)
  | .unregister f => (r.filter (·.1 ≠ f), none)
  | .lookup f => (r, r.lookup f)

def runSeq (r : Reg) : List Call → Reg × List (Option String)
  | [] => (r, [])
  | c :: cs => let a := applyCall r c; let rest := runSeq a.1 cs; (rest.1, a.2 :: rest.2)

/-- a schedule picks, step by step, the thread whose next call runs; `none` when it names a
    thread with nothing left -/
def runSched (r : Reg) (threads : List (List Call)) : List Nat → Option (Reg × List (Nat × Call × Option String))
  | [] => some (r, [])
  | i :: is =>
    match threads[i]? with
    | some (c :: rest) =>
      let a := applyCall r c
      (runSched a.1 (threads.set i rest) is).map (fun x => (x.1, (i, c, a.2) :: x.2))
    | _ => none

/-- **every concurrent execution is a sequential one**: the calls of any schedule, in the order
    the schedule runs their critical sections, form a sequential execution with the same final
    registry and the same result for every call -/
theorem schedule_is_sequential (threads : List (List Call)) (sched : List Nat) (r : Reg)
    (out : Reg × List (Nat × Call × Option String)) (h : runSched r threads sched = some out) :
    runSeq r (out.2.map (·.2.1)) = (out.1, out.2.map (·.2.2)) := by
  induction sched generalizing r threads out with
  | nil =>
    simp only [runSched, Option.some.injEq] at h
    subst h; rfl
  | cons i is ih =>
    simp only [runSched] at h
    split at h
    · rename_i c rest hc
      simp only [Option.map_eq_some_iff] at h
      obtain ⟨x, hx, rfl⟩ := h
      have := ih _ _ x hx
      simp only [List.map_cons, runSeq, this]
    · cases h

/-- and it keeps each goroutine's own order of calls -/
theorem schedule_keeps_program_order (threads : List (List Call)) (sched : List Nat) (r : Reg)
    (out : Reg × List (Nat × Call × Option String)) (h : runSched r threads sched = some out) (i : Nat) :
    ((out.2.filter (·.1 = i)).map (·.2.1)) <+: (threads[i]?.getD []) := by
  induction sched generalizing r threads out with
  | nil =>
    simp only [runSched, Option.some.injEq] at h
    subst h; simp
  | cons j js ih =>
    simp only [runSched] at h
    split at h
    · rename_i c rest hc
      simp only [Option.map_eq_some_iff] at h
      obtain ⟨x, hx, rfl⟩ := h
      have hrec := ih _ _ x hx
      by_cases hij : j = i
      · subst hij
        have hlt : j < threads.length := (List.getElem?_eq_some_iff.mp hc).1
        simp only [List.filter_cons, decide_true, if_true, List.map_cons, hc, Option.getD_some]
        rw [List.getElem?_set_self hlt, Option.getD_some] at hrec
        exact List.prefix_cons_inj _ |>.mpr hrec
      · simp only [List.filter_cons, hij, decide_false, Bool.false_eq_true, if_false]
        rw [List.getElem?_set_ne hij] at hrec
        exact hrec
    · cases h

/-- non-vacuity: a schedule of two goroutines -/
example : (runSched [] [[.register "f" "d", .lookup "f"], [.unregister "f", .lookup "f"]] [0, 1, 0, 1]).isSome = true := by
  decide

end Protobom.C17
