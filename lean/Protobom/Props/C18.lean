/-
  C18 — Reader and writer configuration is isolated per instance.
  Theorems about the options heap `Model/Opts.lean` (objects with pointers into cells) and its
  value-level specification; the refinement is `Proofs/Opts.lean`.
-/
import Protobom.Proofs.Opts
import Protobom.Gen.Opts
import Protobom.Gen.Skel
import Protobom.Expect.Skel

namespace Protobom.C18
open Protobom.Opts Gen

/-! ### tie to the source -/

/-- every reference-typed field of the writer's / reader's Options struct is re-allocated by
    `clone()`, `clone()` starts from a value copy, and `New` starts from `defaultOptions.clone()` -/
theorem writer_clone_deep :
    (∀ f ∈ Gen.Opts.writer_refFields, f ∈ Gen.Opts.writer_cloneFresh) ∧
    Gen.Opts.writer_cloneCopiesValue = true ∧ Gen.Opts.writer_newClonesDefaults = true := by decide

theorem reader_clone_deep :
    (∀ f ∈ Gen.Opts.reader_refFields, f ∈ Gen.Opts.reader_cloneFresh) ∧
    Gen.Opts.reader_cloneCopiesValue = true ∧ Gen.Opts.reader_newClonesDefaults = true := by decide

theorem skel_New : Skel.writer__New = Expect.Skel.writer__New ∧ Skel.reader__New = Expect.Skel.reader__New := by decide
theorem skel_clone :
    Skel.writer_Options_clone = Expect.Skel.writer_Options_clone ∧
    Skel.reader_Options_clone = Expect.Skel.reader_Options_clone := by decide

/-! ### the initial state: the package-level defaults, no instance -/

/-- defaults with `cells.length` option structs / maps, each in its own cell -/
def init (format : String) (cells : List Cell) : St :=
  { store := fun p => cells.getD p [], next := cells.length,
    defaults := { format := format, ptrs := List.range cells.length }, insts := [] }

theorem init_inv (format : String) (cells : List Cell) : Inv (init format cells) := by
  refine ⟨?_, ?_, ?_⟩
  · intro o ho p hp
    simp only [objs, init, List.mem_singleton] at ho
    subst ho
    show p < cells.length
    simpa using hp
  · intro o ho
    simp only [objs, init, List.mem_singleton] at ho
    subst ho
    exact List.nodup_range
  · intro i j oi oj hi hj hij
    simp only [objs, init] at hi hj
    cases i with
    | zero =>
      cases j with
      | zero => exact absurd rfl hij
      | succ j => simp at hj
    | succ i => simp at hi

theorem init_abs (format : String) (cells : List Cell) :
    absD (init format cells) = (format, cells) ∧ abs (init format cells) = [] := by
  refine ⟨?_, rfl⟩
  simp only [absD, deref, init, Prod.mk.injEq, true_and]
  apply List.ext_getElem
  · simp
  · intro n h1 h2
    simp [List.getD_eq_getElem?_getD, h2]

/-! ### the property, for every history -/

/-- **isolation**: after any sequence of constructor calls (with any options) and writes through
    the public option pointers of any instances, every instance reads what the value-level
    specification says — and that specification treats configurations as values -/
theorem config_is_value (format : String) (cells : List Cell) (ops : List Op) :
    abs (run (init format cells) ops) = specRun (format, cells) [] ops ∧
    absD (run (init format cells) ops) = (format, cells) := by
  obtain ⟨_, h2, h3⟩ := run_refines ops (init format cells) (init_inv format cells)
  rw [(init_abs format cells).1, (init_abs format cells).2] at h3
  exact ⟨h3, h2.trans (init_abs format cells).1⟩

/-- a constructor call leaves every earlier instance as it was, … -/
theorem new_keeps_others (d : Cfg) (insts : List Cfg) (settings : List Setting) (j : Nat) (h : j < insts.length) :
    (specStep d insts (.new settings))[j]? = insts[j]? := by
  simp only [specStep]
  exact List.getElem?_append_left h

/-- … yields a configuration computed from the defaults and its own options only, … -/
theorem new_from_defaults (d : Cfg) (insts : List Cfg) (settings : List Setting) :
    (specStep d insts (.new settings))[insts.length]? = some (settings.foldl specSetting d) := by
  simp [specStep]

/-- … and without options yields the defaults -/
theorem new_plain_is_defaults (d : Cfg) (insts : List Cfg) :
    (specStep d insts (.new []))[insts.length]? = some d := by
  simp [specStep]

/-- a write through one instance's option pointer changes no other instance -/
theorem mutate_keeps_others (d : Cfg) (insts : List Cfg) (i k : Nat) (key val : String) (j : Nat) (h : j ≠ i) :
    (specStep d insts (.mutate i k key val))[j]? = insts[j]? := by
  simp only [specStep]
  split
  · split
    · exact List.getElem?_set_ne (Ne.symm h)
    · rfl
  · rfl

/-- in heap terms: whatever happens later — constructors with any options, writes through other
    instances — an instance built without options keeps reading the defaults -/
theorem plain_instance_stays_default (format : String) (cells : List Cell) (before after : List Op)
    (hafter : ∀ op ∈ after, ∀ i k key val, op = Op.mutate i k key val → i ≠ (specRun (format, cells) [] before).length) :
    (abs (run (init format cells) (before ++ [.new []] ++ after)))[(specRun (format, cells) [] before).length]? =
      some (format, cells) := by
  rw [(config_is_value format cells _).1]
  simp only [specRun, List.foldl_append, List.foldl_cons, List.foldl_nil]
  generalize hb : List.foldl (specStep (format, cells)) [] before = insts
  have h0 : (specStep (format, cells) insts (.new []))[insts.length]? = some (format, cells) :=
    new_plain_is_defaults _ _
  -- later operations keep index `insts.length`
  have key : ∀ (ops : List Op) (l : List Cfg), l[insts.length]? = some (format, cells) →
      (∀ op ∈ ops, ∀ i k key val, op = Op.mutate i k key val → i ≠ insts.length) →
      (List.foldl (specStep (format, cells)) l ops)[insts.length]? = some (format, cells) := by
    intro ops
    induction ops with
    | nil => intro l hl _; exact hl
    | cons op ops ih =>
      intro l hl hops
      simp only [List.foldl_cons]
      apply ih
      · cases op with
        | new settings =>
          rw [new_keeps_others _ _ _ _ (by
            rcases Nat.lt_or_ge insts.length l.length with h | h
            · exact h
            · rw [List.getElem?_eq_none h] at hl; cases hl)]
          exact hl
        | mutate i k key val =>
          rw [mutate_keeps_others _ _ _ _ _ _ _ (Ne.symm (hops _ List.mem_cons_self i k key val rfl))]
          exact hl
      · intro op' hop'
        exact hops op' (List.mem_cons_of_mem _ hop')
  apply key after _ h0
  intro op hop i k key val e
  have := hafter op hop i k key val e
  simpa [specRun, hb] using this

/-! ### options of a single call -/

/-- `WriteStreamWithOptions`: the format of the call, else the instance's -/
def effectiveFormat (inst call : String) : String := if call = "" then inst else call

/-- `WriteStreamWithOptions` / `ParseStreamWithOptions`: the call's struct when given, else the
    instance's, else the defaults' -/
def effectiveCell (dflt inst call : Option Cell) : Option Cell :=
  match call with
  | some c => some c
  | none => match inst with
    | some c => some c
    | none => dflt

theorem call_options_override (d i : Option Cell) (c : Cell) : effectiveCell d i (some c) = some c := rfl
theorem call_options_fallback (d : Option Cell) (c : Cell) : effectiveCell d (some c) none = some c := rfl

/-- non-vacuity: two instances, one configured, one mutated; the third still reads the defaults -/
example : (abs (run (init "" [[("Indent", "4")], []])
    [.new [.format "spdx", .replace 0 [("Indent", "1")]], .new [], .mutate 0 0 "Indent" "9", .new [.setKey 1 "k" "v"]]))[1]? =
    some ("", [[("Indent", "4")], []]) := by decide

end Protobom.C18
