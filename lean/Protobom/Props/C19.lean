/-
  C19 — Filesystem store round-trips, isolates keys, stays confined, reports errors.
-/
import Protobom.Proofs.Store
import Protobom.Props.C20
import Protobom.Gen.Skel
import Protobom.Expect.Skel

namespace Protobom.C19
open Protobom Protobom.Store Gen

theorem skel_fileName : Skel.storage__generateDocFileName = Expect.Skel.storage__generateDocFileName := by decide

/-! ### one store -/

/-- a store that is not refused leaves the directory in the final crash state of its operations -/
theorem store_ok_state (C : Codec) (N : Naming) (fs : Files) (d : SDoc) (nc : Bool) (tmp : String)
    (h : (store C N fs d nc tmp).1 = .ok ()) :
    d.id ≠ "" ∧ (store C N fs d nc tmp).2 ∈ crashStates fs (storeOps C N d tmp) := by
  unfold store at h ⊢
  by_cases h1 : d.id = ""
  · simp [h1] at h
  · simp only [h1, if_false] at h ⊢
    by_cases h2 : (nc = true ∧ (fs (N.entry d.id)).isSome = true)
    · simp [h2] at h
    · simp only [h2, if_false]
      exact ⟨h1, final_mem_crashStates fs _⟩

/-- **round trip**: after a successful store, retrieving by the identifier gives the document —
    for any document, any identifier string, any previous content of the directory -/
theorem store_then_retrieve (C : Codec) (N : Naming) (fs : Files) (d : SDoc) (nc : Bool) (tmp : String)
    (htmp : ∀ i, N.entry i ≠ tmp) (h : (store C N fs d nc tmp).1 = .ok ()) :
    retrieve C N (store C N fs d nc tmp).2 d.id = .ok d := by
  unfold store at h ⊢
  by_cases h1 : d.id = ""
  · simp [h1] at h
  · simp only [h1, if_false] at h ⊢
    by_cases h2 : (nc = true ∧ (fs (N.entry d.id)).isSome = true)
    · simp [h2] at h
    · simp only [h2, if_false]
      apply retrieve_of_entry C N _ d h1
      have hne : tmp ≠ N.entry d.id := fun e => htmp d.id e.symm
      simp [storeOps, apply, fput, fdel, hne]

/-- **isolation**: a store never changes what another identifier retrieves -/
theorem store_keeps_others (C : Codec) (N : Naming) (fs : Files) (d : SDoc) (nc : Bool) (tmp : String)
    (htmp : ∀ i, N.entry i ≠ tmp) (id : String) (hne : id ≠ d.id) :
    retrieve C N (store C N fs d nc tmp).2 id = retrieve C N fs id := by
  cases hr : (store C N fs d nc tmp).1 with
  | ok u =>
    obtain ⟨hid, hmem⟩ := store_ok_state C N fs d nc tmp (by rw [hr])
    exact (C20.store_atomic C N fs d tmp hid htmp _ hmem id).2 hne
  | err =>
    have : (store C N fs d nc tmp).2 = fs := by
      unfold store at hr ⊢
      by_cases h1 : d.id = ""
      · simp [h1]
      · simp only [h1, if_false] at hr ⊢
        by_cases h2 : (nc = true ∧ (fs (N.entry d.id)).isSome = true)
        · simp [h2]
        · simp [h2] at hr
    rw [this]
  | panic s =>
    exfalso
    unfold store at hr
    repeat' split at hr
    all_goals cases hr

/-- **no-clobber**: an existing entry is neither replaced nor damaged; the store reports an error -/
theorem no_clobber (C : Codec) (N : Naming) (fs : Files) (d : SDoc) (tmp : String) (hid : d.id ≠ "")
    (hex : (fs (N.entry d.id)).isSome = true) :
    (store C N fs d true tmp).1 = .err ∧ (store C N fs d true tmp).2 = fs := by
  simp [store, hid, hex]

/-- **errors, not aborts**: a document without identifier is refused and nothing is written; an
    unknown, undecodable or foreign entry is an error; no outcome is a panic -/
theorem store_without_id (C : Codec) (N : Naming) (fs : Files) (d : SDoc) (nc : Bool) (tmp : String) (h : d.id = "") :
    (store C N fs d nc tmp).1 = .err ∧ (store C N fs d nc tmp).2 = fs := by
  simp [store, h]

theorem retrieve_unknown (C : Codec) (N : Naming) (fs : Files) (id : String) (h : fs (N.entry id) = none) :
    retrieve C N fs id = .err := by
  unfold retrieve; split
  · rfl
  · simp [h]

theorem retrieve_corrupted (C : Codec) (N : Naming) (fs : Files) (id : String) (b : Bytes)
    (h : fs (N.entry id) = some b) (hbad : ∀ d, C.dec b = some d → d.id ≠ id) : retrieve C N fs id = .err := by
  unfold retrieve; split
  · rfl
  · simp only [h]
    cases hd : C.dec b with
    | none => rfl
    | some d => simp [hbad d hd]

theorem never_panics (C : Codec) (N : Naming) (fs : Files) (d : SDoc) (nc : Bool) (tmp id : String) :
    (store C N fs d nc tmp).1.isPanic = false ∧ (retrieve C N fs id).isPanic = false := by
  refine ⟨?_, ?_⟩
  · unfold store; repeat' split
    all_goals rfl
  · unfold retrieve; repeat' split
    all_goals rfl

/-- a retrieved document is never silently empty: it carries the identifier that was asked for -/
theorem retrieved_has_id (C : Codec) (N : Naming) (fs : Files) (id : String) (d : SDoc)
    (h : retrieve C N fs id = .ok d) : d.id = id ∧ id ≠ "" := by
  unfold retrieve at h
  split at h
  · cases h
  · rename_i hid
    split at h
    · cases h
    · split at h
      · cases h
      · split at h
        · rename_i he
          cases h
          exact ⟨he, hid⟩
        · cases h

/-! ### histories: the directory behaves like a map from identifiers to documents -/

/-- what the store holds, as seen through retrieve -/
def view (C : Codec) (N : Naming) (fs : Files) (id : String) : Option SDoc :=
  match retrieve C N fs id with
  | .ok d => some d
  | _ => none

/-- the abstract store -/
def specStep (m : String → Option SDoc) : Op → (String → Option SDoc)
  | .store d nc _ =>
    if d.id = "" then m
    else if nc ∧ (m d.id).isSome then m
    else fun i => if i = d.id then some d else m i
  | .retrieve _ => m

/-- the directory invariant behind no-clobber: an entry file exists only if it retrieves -/
def Clean (C : Codec) (N : Naming) (fs : Files) : Prop :=
  ∀ id, id ≠ "" → (fs (N.entry id)).isSome = true → (view C N fs id).isSome = true

theorem step_refines (C : Codec) (N : Naming) (fs : Files) (op : Op)
    (htmp : ∀ d nc tmp, op = .store d nc tmp → ∀ i, N.entry i ≠ tmp) (hclean : Clean C N fs) :
    ∀ id, id ≠ "" → view C N (step C N fs op) id = specStep (view C N fs) op id := by
  intro id hidne
  cases op with
  | retrieve _ => rfl
  | store d nc tmp =>
    have ht := htmp d nc tmp rfl
    simp only [step, specStep]
    by_cases h1 : d.id = ""
    · simp [store, h1]
    · simp only [h1, if_false]
      by_cases hex : (fs (N.entry d.id)).isSome = true
      · have hv : (view C N fs d.id).isSome = true := hclean d.id h1 hex
        by_cases hnc : nc = true
        · simp [store, h1, hnc, hex, hv]
        · have hnc' : nc = false := by simpa using hnc
          simp only [hnc', Bool.false_eq_true, false_and, if_false]
          by_cases hi : id = d.id
          · subst hi
            have := store_then_retrieve C N fs d false tmp ht (by simp [store, h1])
            simp [view, this]
          · simp only [hi, if_false, view]
            rw [store_keeps_others C N fs d false tmp ht id hi]
      · have hex' : (fs (N.entry d.id)).isSome = false := by simpa using hex
        have hv : (view C N fs d.id).isSome = false := by
          have : fs (N.entry d.id) = none := by simpa using hex'
          simp [view, retrieve_unknown C N fs d.id this]
        simp only [hv, Bool.false_eq_true, and_false, if_false]
        by_cases hi : id = d.id
        · subst hi
          have := store_then_retrieve C N fs d nc tmp ht (by simp [store, h1, hex'])
          simp [view, this]
        · simp only [hi, if_false, view]
          rw [store_keeps_others C N fs d nc tmp ht id hi]

theorem step_clean (C : Codec) (N : Naming) (fs : Files) (op : Op)
    (htmp : ∀ d nc tmp, op = .store d nc tmp → ∀ i, N.entry i ≠ tmp) (hclean : Clean C N fs) :
    Clean C N (step C N fs op) := by
  cases op with
  | retrieve _ => exact hclean
  | store d nc tmp =>
    have ht := htmp d nc tmp rfl
    intro id hid hex
    simp only [step] at hex ⊢
    cases hr : (store C N fs d nc tmp).1 with
    | ok u =>
      obtain ⟨hdid, hmem⟩ := store_ok_state C N fs d nc tmp (by rw [hr])
      by_cases hi : id = d.id
      · subst hi
        simp [view, store_then_retrieve C N fs d nc tmp ht (by rw [hr])]
      · have hsame := (crash_states_spec C N fs d tmp (fun e => ht d.id e.symm) _ hmem).1 (N.entry id) (ht id)
          (fun e => hi (N.inj _ _ e))
        rw [hsame] at hex
        simp only [view]
        rw [store_keeps_others C N fs d nc tmp ht id hi]
        exact hclean id hid hex
    | err =>
      have : (store C N fs d nc tmp).2 = fs := by
        unfold store at hr ⊢
        by_cases h1 : d.id = ""
        · simp [h1]
        · simp only [h1, if_false] at hr ⊢
          by_cases h2 : (nc = true ∧ (fs (N.entry d.id)).isSome = true)
          · simp [h2]
          · simp [h2] at hr
      rw [this] at hex ⊢
      exact hclean id hid hex
    | panic s =>
      exfalso
      have := (never_panics C N fs d nc tmp "").1
      rw [hr] at this
      cases this

/-- **refinement for every history**: after any sequence of stores (both no-clobber settings, any
    documents and identifiers) and retrieves, the directory seen through `Retrieve` is the abstract
    map from identifiers to documents that the same sequence builds -/
theorem run_refines (C : Codec) (N : Naming) (ops : List Op) (fs : Files)
    (htmp : ∀ op ∈ ops, ∀ d nc tmp, op = .store d nc tmp → ∀ i, N.entry i ≠ tmp) (hclean : Clean C N fs) :
    ∀ id, id ≠ "" → view C N (ops.foldl (step C N) fs) id = (ops.foldl specStep (view C N fs)) id := by
  induction ops generalizing fs with
  | nil => intro id _; rfl
  | cons op ops ih =>
    intro id hid
    simp only [List.foldl_cons]
    have h1 := step_refines C N fs op (htmp op List.mem_cons_self) hclean
    have h2 := step_clean C N fs op (htmp op List.mem_cons_self) hclean
    rw [ih (step C N fs op) (fun o ho => htmp o (List.mem_cons_of_mem _ ho)) h2 id hid]
    -- the two abstract maps agree on every non-empty identifier, and the abstract steps only look
    -- at non-empty identifiers
    have agree : ∀ (l : List Op) (m m' : String → Option SDoc), (∀ i, i ≠ "" → m i = m' i) →
        ∀ i, i ≠ "" → l.foldl specStep m i = l.foldl specStep m' i := by
      intro l
      induction l with
      | nil => intro m m' h i hi; exact h i hi
      | cons o os ihl =>
        intro m m' h i hi
        simp only [List.foldl_cons]
        apply ihl _ _ _ i hi
        intro j hj
        cases o with
        | retrieve _ => exact h j hj
        | store d nc t =>
          simp only [specStep]
          by_cases hd : d.id = ""
          · simp [hd, h j hj]
          · simp only [hd, if_false, h d.id hd]
            split
            · exact h j hj
            · by_cases hjd : j = d.id
              · simp [hjd]
              · simp [hjd, h j hj]
    exact agree ops _ _ h1 id hid

/-! ### confinement: entry names are flat -/

theorem hexDigit_safe (n : Nat) (h : n < 16) : hexDigit n ≠ '/' ∧ hexDigit n ≠ '.' ∧ hexDigit n ≠ '\\' := by
  revert n; decide

/-- the file name of an entry — 2 hex digits per digest byte plus `.protobom` — contains no path
    separator and is not `.` or `..`: every entry is a direct child of the configured directory,
    whatever the identifier (path separators, dot-dot, absolute paths, unicode, very long) -/
theorem entry_name_flat (digest : List UInt8) :
    (∀ c ∈ entryName digest, c ≠ '/' ∧ c ≠ '\\') ∧ entryName digest ≠ ".".toList ∧ entryName digest ≠ "..".toList := by
  refine ⟨?_, ?_, ?_⟩
  · intro c hc
    simp only [entryName, List.mem_append, hex, List.mem_flatMap] at hc
    rcases hc with ⟨b, _, hb⟩ | hc
    · simp only [List.mem_cons, List.not_mem_nil, or_false] at hb
      rcases hb with rfl | rfl
      · have := hexDigit_safe (b.toNat / 16) (by have := UInt8.toNat_lt b; omega)
        exact ⟨this.1, this.2.2⟩
      · have := hexDigit_safe (b.toNat % 16) (by omega)
        exact ⟨this.1, this.2.2⟩
    · revert c; decide
  · intro h
    have := congrArg List.length h
    simp [entryName] at this
  · intro h
    have := congrArg List.length h
    simp [entryName] at this

end Protobom.C19
