/-
  C20 — Storing a document is atomic with respect to crashes.
-/
import Protobom.Proofs.Store
import Protobom.Gen.Skel
import Protobom.Expect.Skel

namespace Protobom.C20
open Protobom Protobom.Store Gen

/-- tie: `Store` still issues the file operations the model lists (create temp, write, close,
    chmod, rename into place) and `Retrieve` still checks the stored identifier -/
theorem skel_Store : Skel.storage_FileSystem_Store = Expect.Skel.storage_FileSystem_Store := by decide +kernel
theorem skel_Retrieve : Skel.storage_FileSystem_Retrieve = Expect.Skel.storage_FileSystem_Retrieve := by decide +kernel

/-- **atomicity**: whatever the codec accepts (in particular: even if it accepts torn prefixes of
    an encoding), in every state a store of `d` can leave when the process dies — before or after
    any of its file operations, or inside the write after any prefix of the bytes — a retrieve of
    `d`'s identifier gives what it gave before the store or the complete new document, and a
    retrieve of any other identifier gives what it gave before. The temporary name must not be an
    entry name (entry names are 64 hex digits plus `.protobom`; temporary names are longer). -/
theorem store_atomic (C : Codec) (N : Naming) (fs : Files) (d : SDoc) (tmp : String)
    (hid : d.id ≠ "") (htmp : ∀ i, N.entry i ≠ tmp)
    (s : Files) (hs : s ∈ crashStates fs (storeOps C N d tmp)) (id : String) :
    (id = d.id → retrieve C N s id = retrieve C N fs id ∨ retrieve C N s id = .ok d) ∧
    (id ≠ d.id → retrieve C N s id = retrieve C N fs id) := by
  obtain ⟨h1, h2⟩ := crash_states_spec C N fs d tmp (fun e => htmp d.id e.symm) s hs
  refine ⟨?_, ?_⟩
  · intro e
    subst e
    rcases h2 with h | h
    · exact Or.inl (retrieve_congr C N s fs _ h)
    · exact Or.inr (retrieve_of_entry C N s d hid h)
  · intro hne
    apply retrieve_congr
    apply h1
    · exact htmp id
    · intro e; exact hne (N.inj _ _ e)

/-- in particular never a truncated, empty or mixed document: the result is an error, the old
    document or the new one -/
theorem no_torn_document (C : Codec) (N : Naming) (fs : Files) (d : SDoc) (tmp : String)
    (hid : d.id ≠ "") (htmp : ∀ i, N.entry i ≠ tmp)
    (s : Files) (hs : s ∈ crashStates fs (storeOps C N d tmp)) (x : SDoc)
    (hx : retrieve C N s d.id = .ok x) : x = d ∨ retrieve C N fs d.id = .ok x := by
  rcases (store_atomic C N fs d tmp hid htmp s hs d.id).1 rfl with h | h
  · exact Or.inr (h ▸ hx)
  · rw [h] at hx; cases hx; exact Or.inl rfl

/-- a write that is cut short and *fails* (full disk, quota, file-size limit) instead of killing the
    process leaves the directory in a state a crash inside that write leaves: so as long as the
    store stops there — reports the error, renames nothing — `store_atomic` speaks about it too -/
theorem failed_write_is_a_crash_state (C : Codec) (N : Naming) (fs : Files) (d : SDoc) (tmp : String)
    (k : Nat) (hk : k < (C.enc d).length) :
    apply (apply fs (.create tmp)) (.write tmp ((C.enc d).take k)) ∈ crashStates fs (storeOps C N d tmp) := by
  unfold storeOps
  simp only [crashStates]
  apply List.mem_cons_of_mem
  apply List.mem_cons_of_mem
  apply List.mem_append_left
  exact List.mem_map.mpr ⟨k, List.mem_range.mpr hk, rfl⟩

/-- … and then a retrieve of the identifier gives what it gave before the store (the entry was not
    touched), any other identifier likewise -/
theorem failed_write_keeps_entries (C : Codec) (N : Naming) (fs : Files) (d : SDoc) (tmp : String)
    (hid : d.id ≠ "") (htmp : ∀ i, N.entry i ≠ tmp) (k : Nat) (hk : k < (C.enc d).length) (id : String) :
    let s := apply (apply fs (.create tmp)) (.write tmp ((C.enc d).take k))
    (id = d.id → retrieve C N s id = retrieve C N fs id ∨ retrieve C N s id = .ok d) ∧
    (id ≠ d.id → retrieve C N s id = retrieve C N fs id) :=
  store_atomic C N fs d tmp hid htmp _ (failed_write_is_a_crash_state C N fs d tmp k hk) id

/-- the number of crash points explored for a document of `n` encoded bytes -/
theorem crash_points (C : Codec) (N : Naming) (fs : Files) (d : SDoc) (tmp : String) :
    (crashStates fs (storeOps C N d tmp)).length = (C.enc d).length + 5 := by
  simp [crashStates, storeOps]

/-! ### non-vacuity: a codec and a naming exist, and the premises of `store_atomic` are met -/

example : ∀ i, demoNaming.entry i ≠ "tmp" := by
  intro i h
  have := congrArg String.length h
  simp only [demoNaming, String.length_append] at this
  have h1 : ".protobom".length = 9 := by decide
  have h2 : "tmp".length = 3 := by decide
  omega

example : retrieve demoCodec demoNaming
    ((storeOps demoCodec demoNaming ⟨"a", [1, 2]⟩ "tmp").foldl apply (fun _ => none)) "a" = .ok ⟨"a", [1, 2]⟩ := by
  decide

end Protobom.C20
