#!/bin/sh
# Offline setup: build the Lean development (all property theorems + the compiled model driver)
# and the Go tools against /repo's working tree. Everything comes from files on disk.
set -e
cd "$(dirname "$0")"
export GOFLAGS=-mod=mod GOPROXY=off GOSUMDB=off GOTOOLCHAIN=local
mkdir -p out/bin out/gomod evidence lean/Protobom/Gen
REPO="${VERIF_REPO:-/repo}"
sed "s#^replace github.com/protobom/protobom => .*#replace github.com/protobom/protobom => $REPO#" go/go.mod > out/gomod/go.mod
cat "$REPO/go.sum" go/go.sum 2>/dev/null | sort -u > out/gomod/go.sum
(cd go && go build -modfile=../out/gomod/go.mod -tags verif -o ../out/bin/extract ./cmd/extract && go build -modfile=../out/gomod/go.mod -tags verif -o ../out/bin/harness ./cmd/harness)
./out/bin/extract -repo "$REPO" -out lean/Protobom/Gen
(cd lean && lake build Protobom pbmodel)
echo "setup done"
