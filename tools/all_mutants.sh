#!/bin/sh
# usage: tools/all_mutants.sh [workers] [id-pattern]
# applies every seeded change in turn to scratch worktrees of /repo (never to /repo itself), runs the
# quick check of its property against it through VERIF_REPO, and removes the worktrees. Several
# workers share the build lock of ./check and run their streams side by side.
# Evidence files written by these runs describe patched trees: re-run the real checks afterwards.
cd /verif
workers=${1:-1}; pat=${2:-C}
ids=$(ls /verif/seeded | grep "$pat")
run_worker() {
  k=$1; wt=/tmp/verif-mutants-$$-$k
  git -C /repo worktree add -q --detach "$wt" HEAD || exit 2
  i=0
  for id in $ids; do
    i=$((i+1)); [ $((i % workers)) -eq $((k % workers)) ] || continue
    prop=${id%%-*}
    git -C "$wt" checkout -q -- .
    if ! git -C "$wt" apply "/verif/seeded/$id/patch.diff" 2>/dev/null; then echo "$id: patch no longer applies"; continue; fi
    out=$(VERIF_REPO="$wt" ./check "$prop" quick 2>&1 | grep -av '^KNOWN-FINDING' | tail -3 | tr '\n' ' ' | cut -c1-500)
    echo "$id: $out"
  done
  git -C /repo worktree remove --force "$wt"
}
k=0
while [ $k -lt $workers ]; do run_worker $k & k=$((k+1)); done
wait
