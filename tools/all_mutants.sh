#!/bin/sh
# applies every seeded change in turn to a scratch worktree of /repo (never to /repo itself), runs
# the quick check of its property against it through VERIF_REPO, and removes the worktree.
# Evidence files written by these runs describe patched trees: re-run the real checks afterwards.
cd /verif
wt=${VERIF_SCRATCH:-/tmp/verif-mutants-$$}
git -C /repo worktree add -q --detach "$wt" HEAD || exit 2
for d in /verif/seeded/*/; do
  id=$(basename "$d"); prop=${id%%-*}
  git -C "$wt" checkout -q -- .
  if ! git -C "$wt" apply "$d/patch.diff" 2>/dev/null; then echo "$id: patch no longer applies"; continue; fi
  out=$(VERIF_REPO="$wt" ./check "$prop" quick 2>&1 | grep -v '^KNOWN-FINDING' | tail -1)
  echo "$id: $out"
done
git -C /repo worktree remove --force "$wt"
