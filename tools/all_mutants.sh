#!/bin/sh
# applies every seeded change in turn to /repo's working tree, runs the quick check of its property, undoes it
cd /verif
for d in /verif/seeded/*/; do
  id=$(basename "$d"); prop=${id%%-*}
  if ! git -C /repo apply --check "$d/patch.diff" 2>/dev/null; then echo "$id: patch no longer applies"; continue; fi
  git -C /repo apply "$d/patch.diff"
  out=$(./check "$prop" quick 2>&1 | grep -v '^KNOWN-FINDING' | tail -1)
  git -C /repo checkout -- . ; git -C /repo clean -fdq pkg 2>/dev/null
  echo "$id: $out"
done
