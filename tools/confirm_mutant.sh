#!/bin/sh
# usage: tools/confirm_mutant.sh <worktree> <patch.diff> <demo_test.go> <pkgdir relative, e.g. pkg/sbom>
# Confirms: suite passes with the change; demo fails with it and passes without it.
set -u
wt="$1"; patch="$2"; demo="$3"; pkg="$4"
export GOFLAGS=-mod=mod GOPROXY=off GOSUMDB=off
cd "$wt" && git checkout -q -- . && git clean -fdq
git apply "$patch" || { echo "RESULT apply-failed"; exit 2; }
go build ./... >/dev/null 2>&1 || { echo "RESULT build-failed"; git checkout -q -- .; exit 2; }
if go test -vet=off -count=1 ./... >/tmp/confirm.$$.log 2>&1; then suite=pass; else suite=FAIL; fi
cp "$demo" "$pkg/zz_demo_test.go"
if go test -vet=off -count=1 -run 'Demo' "./$pkg" >/tmp/confirm.$$.demo1 2>&1; then with=pass; else with=fail; fi
git checkout -q -- .
if go test -vet=off -count=1 -run 'Demo' "./$pkg" >/tmp/confirm.$$.demo2 2>&1; then without=pass; else without=fail; fi
rm -f "$pkg/zz_demo_test.go" /tmp/confirm.$$.*
echo "RESULT suite_with_change=$suite demo_with_change=$with demo_without_change=$without"
