#!/usr/bin/env python3
"""Regenerate MANIFEST.json from the table below (kept in one place so it always validates)."""
import json, os
V = os.path.dirname(os.path.dirname(os.path.abspath(__file__)))
NOTE = ("Trusted: Lean 4 kernel (re-checked by leanchecker in the thorough tier); axioms propext, Classical.choice, Quot.sound only; "
        "the extractor go/cmd/extract (regenerates Gen/*.lean from the working tree on every run); the harness (generators, canonicalisation, "
        "oracles, shrinker). The hand-written algorithm models are tied to the code by the correspondence streams only. ")
CLAIMS = {
 "C08": ("Theorems: every editing operation (union, intersect, add, removeNodes, relate node / node list, nodeGraph, nodeSiblings, nodeDescendants, purl-type extraction) maps well-formed lists to well-formed lists, merging/removal/extraction results are normalised, removeNodes removes exactly the named nodes with their edges and root entries, and a register machine over arbitrary instruction sequences keeps every register well-formed (induction over the program). Tied to the code by differential execution on single operations (stream nl) and on histories over three registers executed on the real objects (stream hist).",
         "The sequence theorem is about values; aliasing between registers created by the in-place operations is outside it (the harness copies in-place arguments; C12 covers value independence).",
         "Lean 4 proof (invariant preservation + induction over operation sequences) + differential correspondence"),
 "C09": ("Theorems: refinement of Union/Add to set union on identifiers, roots and the edge relation restricted to present nodes with no well-formedness hypothesis; commutativity, idempotence, identity; associativity for edge-closed operands with a kernel-checked witness that it must fail otherwise (known finding KF-C09-assoc-dangling); attribute precedence for every schema attribute through the regenerated Update/Augment tables; node-level characterisation under unique identifiers.",
         "Attributes are the 24 schema fields other than id and type (kind is identity, not an attribute).",
         "Lean 4 proof (refinement to set union) + regenerated tables + differential correspondence"),
 "C10": ("Theorems: Intersect has exactly the identifiers present in both operands (each once), its roots are exactly the surviving nodes that are a root of either operand, its edges exactly the edges of either operand between surviving nodes; commutative, idempotent, absorbs a union containing the first operand, empty against the empty list; surviving nodes are the first operand's node updated by the second's (second-operand-wins per attribute, regenerated table).",
         "No hypothesis on the operands for the set clauses; unique identifiers for the node-level clause.",
         "Lean 4 proof (refinement to set intersection) + regenerated tables + differential correspondence"),
 "C11": ("Theorems (logic): frame theorem — an operation all of whose writes go to storage the call allocated leaves every pre-existing location unchanged, for any trace of reads, writes and allocations; race-freedom — any number of such calls on one shared store have no pair of conflicting accesses, so every interleaving is race-free; at the identity layer a deep copy allocates only fresh tags. Whether each public read-only operation *is* operand-pure is decided on the real objects: stream alias takes deep order-sensitive snapshots of every operand (every field of every message, including the spare capacity of every slice) before and after 40+ read-only / value-returning operations incl. both serializers, stream hist checks that a step changes only the register it writes; the thorough tier adds the race detector.",
         "PARTIAL: the link between the code and the purity hypothesis is dynamic (snapshots, race detector), not a static effect analysis; Go memory model and runtime are not modelled.",
         "Lean 4 proof (frame + race-freedom theorems on a write-log model) + snapshot/alias differential on real objects"),
 "C12": ("Theorems at the identity layer (values as trees of tagged boxes): for every message type (Node, Edge, Person, ExternalReference) the regenerated Copy table gives every field of the schema a form that allocates fresh storage (decide over schema x table; a field added later with a bare alias or left out fails), and a message copied with such forms has only fresh tags at every nesting level and the same value (so it compares equal); a union/intersection node (copy updated from a copy) has only fresh tags whatever fields Update takes. Tied to the code by the regenerated tables and by stream alias: storage-overlap signature between results and operands (unsafe data pointers of slices, map and message pointers), mutation of every reachable container of one side with re-snapshot of the other, two calls sharing an operand, operands with internal pointer sharing.",
         "Element-wise Copy() of a callee type is modelled as a deep copy when that type's own table obligation holds.",
         "Lean 4 proof (tag freshness over regenerated copy tables) + alias-signature/mutation differential"),
 "C13": ("Theorems: node, edge and node-list equality are equivalence relations (node-list equality is characterised as equality of lengths, sorted roots, sorted edge strings and the id-to-checksum map, which needs a pigeonhole argument); equality agrees with checksum equality up to an exhibited collision of the hash function (a parameter); the flattened string is invariant under every permutation of set-valued attributes, map entries, suppliers/originators/references, edge targets, and (with unique ids) nodes, edges and roots of a list; every schema attribute is flattened with a treatment fitting its kind (regenerated table). Discrimination is PARTIAL: proved at pair level for scalar attributes; the joined string is not injective (kernel-checked collision witness, known finding KF-C13-separators); single-attribute discrimination over every schema field is decided by the eq stream.",
         "SHA-256 is a parameter H; contact order inside a person is content, not a set.",
         "Lean 4 proof (equivalence, permutation invariance via sorted-list uniqueness) + regenerated tables + differential correspondence"),
 "C14": ("Theorems over the regenerated Diff table: diff n n = none; diff n m = none exactly when identifier, type and every schema attribute agree (sets for list-valued attributes, persons and references by flattened content, maps as maps, dates to the second); the count is a sum of one 0/1 entry per attribute, 0 exactly when that attribute agrees; applying the reported additions and removals to the first node rebuilds every attribute of the second. Helper lemmas for diff, diffSlice, diffList, diffMap, diffDates are proved once and lifted along the schema.",
         "Hypothesis `typed`: attribute lists follow the schema and maps are key-unique (Go maps).",
         "Lean 4 proof (per-helper lemmas lifted along the regenerated schema) + differential correspondence"),
 "C15": ("Theorems: the worklist form of connectedIndexRecursion is defined by well-founded recursion (termination on every graph is checked by Lean) and computes exactly the paths from the start node through present non-root nodes; nodeGraph's nodes, edges (restriction to returned nodes) and sole root; nodeSiblings one hop; nodeDescendants returns exactly the nodes reached within fewer than depth hops where another root is reached but never traversed through (soundness and completeness of the level-by-level loop), hence monotone in the depth, depth one is the start node alone; edges restricted, root; node sets independent of node/edge order.",
         "Identifiers are assumed non-empty for the traversal clauses (NodeSiblings treats \"\" as a sentinel).",
         "Lean 4 proof (reachability characterisation, well-founded termination) + differential correspondence"),
 "C16": ("Theorems: every lookup equals its filter (name, id, identifier, purl type, roots under unique ids); GetMatchingNode equals the documented rule written declaratively (specMatch), returns only nodes of the list, is invariant under every permutation of the node list and of the probe's hash entries.",
         "Go map iteration order is modelled by list order; invariance is proved for all permutations.",
         "Lean 4 proof (equality with a declarative specification, permutation invariance) + differential correspondence"),
}
ALL = ["C%02d" % i for i in range(1, 21)]
PENDING = "not yet built in this session: the Lean model and correspondence stream for this property are still under construction (DESIGN.md section 8 build order)"
def chk(pid):
    text, extra, tech = CLAIMS[pid]
    return {"property_id": pid, "quick_cmd": "./check %s quick" % pid, "thorough_cmd": "./check %s thorough" % pid,
            "evidence_file": "evidence/%s.json" % pid, "replay_cmd_template": "./check replay {path}",
            "engine": "lean4-proof+correspondence",
            "level_claimed": {"category": "proof", "text": text, "design_ref": "DESIGN.md section 4 (%s)" % pid},
            "level_note": NOTE + extra, "technique": tech}
m = {"version": 1, "setup_cmd": "./setup.sh",
     "hooks": {"guard": "verif", "enable": "go build -tags verif (new files only, each with //go:build verif)",
               "baseline_off_cmd": "cd /repo && GOFLAGS=-mod=mod GOPROXY=off GOSUMDB=off go test -json -vet=off -count=1 -timeout 25m ./...",
               "source_commits": json.load(open(os.path.join(V, "tools", "hook_commits.json"))), "add_only": True},
     "engines": [{"name": "lean4-proof+correspondence",
                  "path": "lean/ (theorems), go/cmd/extract (translator), go/cmd/harness (correspondence + oracles), check (verdict)",
                  "serves_properties": sorted(CLAIMS),
                  "kind_free_text": "machine-checked proof in Lean 4 about an executable model; the model is tied to the source by regenerating table-shaped code and by differential execution"}],
     "checks": [chk(p) for p in sorted(CLAIMS)],
     "not_applicable": [{"property_id": p, "reason": PENDING} for p in ALL if p not in CLAIMS],
     "notes": "./check <Cxx> quick|thorough; env VERIF_SEED, VERIF_REPO. known_findings.json lists recorded findings and fixed defects; seeded/ holds confirmed breaking changes."}
json.dump(m, open(os.path.join(V, "MANIFEST.json"), "w"), indent=1)
print("claimed:", sorted(CLAIMS))
