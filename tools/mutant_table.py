#!/usr/bin/env python3
"""usage: tools/mutant_table.py m9 m10   — markdown table of the stored changes with these suffixes"""
import json, sys, os, glob
V = os.path.dirname(os.path.dirname(os.path.abspath(__file__)))
print("| id | change | needs | caught by |\n|---|---|---|---|")
rows = []
for d in glob.glob(os.path.join(V, "seeded", "C*-m*")):
    mid = os.path.basename(d)
    if mid.split("-")[1] not in sys.argv[1:]:
        continue
    rows.append(mid)
rows.sort(key=lambda x: (x.split("-")[0], int(x.split("-m")[1])))
for mid in rows:
    m = json.load(open(os.path.join(V, "seeded", mid, "meta.json")))
    esc = lambda s: str(s).replace("|", "\\|").replace("\n", " ")
    note = ""
    if m.get("first_run") not in (None, "input"):
        note = " — first run: " + m["first_run"]
    print("| %s | %s | %s | %s%s |" % (mid, esc(m["change"]), esc(m.get("needs_to_manifest", "")), esc(m.get("detected_by", "")), note))
