#!/usr/bin/env python3
"""usage: tools/record_round.py <first-run log> <later log>...   (lines "Cxx-mN: <tail of the check output>")
Records in seeded/<id>/meta.json how the first run went and which check output finally reports the change."""
import json, re, sys, os
V = os.path.dirname(os.path.dirname(os.path.abspath(__file__)))

def parse(path):
    out = {}
    for line in open(path, errors="replace"):
        m = re.match(r"(C\d\d-m\d+): (.*)", line.rstrip("\n"))
        if m:
            out[m.group(1)] = m.group(2).strip()
    return out

def klass(text):
    # the logged tails may be cut before the VIOLATION line
    if "failing input" in text:
        return "input"
    if "no-failing-input-found" in text or text.startswith(("correspondence difference", "broken:")):
        return "broken tie only"
    if "VIOLATION" in text:
        return "input"
    return "missed"

def summary(text):
    t = re.sub(r"\s*VIOLATION property=.*", "", text)
    t = re.sub(r"^correspondence difference on stream (\w+):.*", r"correspondence difference on stream \1 (no oracle failure)", t)
    return "quick: " + t.strip()[:260]

first = parse(sys.argv[1])
final = dict(first)
for p in sys.argv[2:]:
    final.update(parse(p))
for mid, text in sorted(final.items()):
    mp = os.path.join(V, "seeded", mid, "meta.json")
    if not os.path.exists(mp):
        continue
    m = json.load(open(mp))
    m["first_run"] = klass(first.get(mid, "")) if mid in first else "not run"
    m["detected_by"] = summary(text) if klass(text) != "missed" else "NOT DETECTED: " + text[:120]
    m["final_class"] = klass(text)
    json.dump(m, open(mp, "w"), indent=1)
    print(mid, m["first_run"], "->", m["final_class"])
