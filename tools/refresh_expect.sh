#!/bin/sh
# Re-baselines the hand-kept skeleton expectations from the regenerated Gen/Skel.lean. Run only after
# reviewing that the models in lean/Protobom/Model still describe the changed functions.
sed -e 's/namespace Protobom.Gen.Skel/namespace Protobom.Expect.Skel/' -e 's/end Protobom.Gen.Skel/end Protobom.Expect.Skel/' \
    -e '1s/.*/-- Hand-kept expectation: the skeletons of the Go functions as they were when the models in Model\/ were written.\n-- Props compare these with the regenerated Gen\/Skel.lean./' \
    /verif/lean/Protobom/Gen/Skel.lean > /verif/lean/Protobom/Expect/Skel.lean
