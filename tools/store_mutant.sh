#!/bin/sh
# usage: tools/store_mutant.sh <Cxx-mN> <worktree> "<change>" "<needs>" "<detected_by>"
# confirms /tmp/mut-<id>.diff with its demo in the worktree and stores it under seeded/<id>/
set -u
id="$1"; wt="$2"; change="$3"; needs="$4"; det="$5"
pkg=$(cat /tmp/mut-$id.pkg 2>/dev/null | tr -d ' \n'); [ -n "$pkg" ] || pkg=pkg/sbom
res=$(/verif/tools/confirm_mutant.sh "$wt" /tmp/mut-$id.diff /tmp/mut-${id}_test.go "$pkg" | grep RESULT)
echo "$id: $res"
case "$res" in *suite_with_change=pass*demo_with_change=fail*demo_without_change=pass*) ;; *) echo "NOT CONFIRMED"; exit 1;; esac
d=/verif/seeded/$id; mkdir -p $d
cp /tmp/mut-$id.diff $d/patch.diff; cp /tmp/mut-${id}_test.go $d/demo_test.go
head=$(git -C "$wt" rev-parse --short HEAD)
python3 - "$id" "$change" "$needs" "$det" "$pkg" "$head" <<'PY'
import json,sys
id,change,needs,det,pkg,head=sys.argv[1:7]
json.dump({"id":id,"property":id.split('-')[0],"change":change,"needs_to_manifest":needs,
 "confirmed":{"how":"tools/confirm_mutant.sh in a scratch worktree of /repo at %s: go build ./... ; go test -vet=off -count=1 ./... ; demo copied to %s/zz_demo_test.go, go test -run Demo"%(head,pkg),
 "suite_with_change":"pass","demo_with_change":"fail","demo_without_change":"pass"},
 "demo_pkg":pkg,"detected_by":det,"source":"independent sub-agent given only the property text and a scratch worktree"},
 open('/verif/seeded/%s/meta.json'%id,'w'),indent=1)
PY
