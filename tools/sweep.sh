#!/bin/sh
# usage: tools/sweep.sh [tier] [seed]  — runs every claimed check on the current tree, one line per property
tier="${1:-quick}"; seed="${2:-}"
cd /verif
for p in $(python3 -c "import json;print(' '.join(c['property_id'] for c in json.load(open('MANIFEST.json'))['checks']))"); do
  if [ -n "$seed" ]; then export VERIF_SEED="$seed"; fi
  out=$(./check "$p" "$tier" 2>&1 | grep -v '^KNOWN-FINDING' | tail -1)
  echo "$p: $out"
done
