#!/bin/sh
# usage: tools/try_mutant.sh <patch.diff> <prop> [more props]   — applies the patch to /repo, runs the quick checks, undoes it
set -u
patch="$1"; shift
cd /repo && git apply "$patch" || { echo "patch does not apply"; exit 2; }
for p in "$@"; do
  (cd /verif && ./check "$p" quick 2>&1 | grep -v '^KNOWN-FINDING' | tail -4)
done
cd /repo && git checkout -- . && git status --short | grep -v '^??' | head
