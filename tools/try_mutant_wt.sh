#!/bin/sh
# usage: tools/try_mutant_wt.sh <worktree> <patch.diff> <prop> [more props]
# applies the patch to a scratch worktree of /repo (never to /repo itself), runs the quick checks
# against it through VERIF_REPO, and resets the worktree. Evidence files written by such a run
# describe the patched tree: re-run the real check before committing evidence.
set -u
wt="$1"; patch="$2"; shift 2
cd "$wt" && git checkout -q -- . && git apply "$patch" || { echo "patch does not apply"; exit 2; }
for p in "$@"; do
  (cd /verif && VERIF_REPO="$wt" ./check "$p" ${TIER:-quick} 2>&1 | grep -av '^KNOWN-FINDING' | tail -4)
done
cd "$wt" && git checkout -q -- .
