#!/bin/sh
# usage: tools/try_round.sh <suffixes e.g. "m3 m4"> <props...>  — tries /tmp/mut-<prop>-<suffix>.diff against the quick check
sfx="$1"; shift
for p in "$@"; do for s in $sfx; do
  f=/tmp/mut-$p-$s.diff
  [ -f "$f" ] || { echo "$p-$s: no diff"; continue; }
  out=$(/verif/tools/try_mutant.sh "$f" "$p" 2>&1 | grep -v '^KNOWN' | tail -2 | tr '\n' ' ')
  echo "$p-$s: $out"
done; done
